"""C09 - a message whose handling committed is never handled again, even after restart."""

from __future__ import annotations

import random
from collections import Counter

from .. import crash, oracles, specs
from ..framework import viol
from ..runs import delivery_run
from . import c01, c02

ID = "C09"
LEVEL = "exploration"
RULE = (
    "(a) case = workflow x mode; the ack of EVERY message of the run is withheld once so each message comes back "
    "later, while the in-memory filter is disturbed between deliveries: nothing / forced rotation (reset) / global "
    "filter dropped / processor re-created (fresh filter + hydration) at random steps / the durable is-processed lookup "
    "failing with a transient store error (35 % of the lookups), with dedup_trust_negative_cache "
    "off and on, and across a real restart (crash snapshots resumed as a fresh worker, every message redelivered). "
    "Oracle: a delivery whose processed mark was durable before the delivery's claim commit never enters a handler; "
    "no task executes after its completion is durable; execution counts equal the exactly-once reference. "
    "(b) the filter itself: hypothesis-generated id sets (arbitrary unicode, tiny and large capacities) under a shadow "
    "set contract: maybe_seen(x) is True for every x told via mark_seen / hydrate since the last reset. "
    "(c) 'to a different worker': 2-4 worker threads of ONE process - in a third of the cases running two QueueProcessor "
    "objects of which only one trusts the filter's negatives - (the single-writer setting in which "
    "dedup_trust_negative_cache is allowed) share the global filter, a tiny filter capacity forces rotation + "
    "re-hydration while other threads are mid-handling, every message is forgotten once (no ack, lock lapses) and comes "
    "back to whichever thread polls next; threads are interleaved by the cooperative scheduler at every SQL statement "
    "AND at every filter operation (maybe_seen / mark_seen / reset / hydrate / per-id hashing / authoritative). Same "
    "oracle: a delivery polled after the message's processed mark was durable never enters a handler. "
    "(d) the same protocol in isolation at volume: 3-5 threads push fresh and already-processed ids through the real "
    "_handle_message (real store, real global filter, no-op handler) while the filter's age limit passes at random "
    "moments, so rotations overlap with handling and with each other; an id whose earlier call had returned must never "
    "reach the handler. Non-trivial = "
    "redelivery of an already marked message; distinct = (message type, disturbance mode, trust flag)."
)
ASSUMPTIONS = ["SQLite backend", "dedup_trust_negative_cache=True only in the single-writer setting the option documents"]
MIN_OBS = {"marked_redeliveries": {"quick": 2000, "thorough": 30000}, "bloom_ids_checked": {"quick": 5000, "thorough": 100000}, "threaded_marked_redeliveries": {"quick": 5000, "thorough": 80000}, "threaded_rotations": {"quick": 500, "thorough": 8000}, "threaded_hydrations": {"quick": 300, "thorough": 5000}, "lookup_faults_injected": {"quick": 200, "thorough": 3000}, "stale_copies_delivered": {"quick": 300, "thorough": 3000}}
TIMEOUT = {"quick": 800, "thorough": 3400}

MODES = ["none", "rotate", "reset_dedup", "new_processor", "mixed", "lookup_fault", "stale_claim"]


class _LookupFault:
    """Failpoint: the durable is-processed lookup (SELECT ... FROM processed_messages WHERE message_id) fails
    with a transient store error now and then.  A failed lookup must fail the delivery (the message comes back),
    never be read as 'not processed'."""

    def __init__(self, rng: random.Random, p: float) -> None:
        self.rng, self.p, self.fired = rng, p, 0
        self.hit: set = set()

    def __call__(self, conn, sql, args) -> None:
        if isinstance(sql, str) and "FROM processed_messages" in sql and "WHERE message_id" in sql and "SELECT" in sql.upper():
            key = repr(args)
            # at most one failed lookup per message id: the delivery fails once and is retried, the message
            # never runs out of attempts because of the injected faults
            if key not in self.hit and self.rng.random() < self.p:
                import sqlite3

                self.hit.add(key)
                self.fired += 1
                raise sqlite3.OperationalError("database is locked")


def gen_cases(tier: str, seed: int) -> list[dict]:
    n = 30 if tier == "quick" else 200
    cases = []
    for i in range(n):
        for trust in (False, True):
            cases.append({"kind": "redeliver", "spec_i": i, "seed": seed, "trust": trust})
    for i in range(4 if tier == "quick" else 20):
        cases.append({"kind": "restart", "spec_i": i * 2, "seed": seed})
    for i in range(4 if tier == "quick" else 40):
        cases.append({"kind": "bloom", "i": i, "seed": seed, "examples": 150 if tier == "quick" else 600})
    for i in range(96 if tier == "quick" else 1200):
        cases.append({"kind": "threads", "i": i, "seed": seed, "trust": i % 4 != 3, "mixed": i % 3 == 1})
    for i in range(160 if tier == "quick" else 3000):
        cases.append({"kind": "protocol", "i": i, "seed": seed, "trust": i % 5 != 4})
    return cases


def _redeliver(case: dict) -> dict:
    spec = c01._spec_for(case["spec_i"], case["seed"])
    ref = delivery_run(spec)
    rng = random.Random(case["seed"] * 23 + case["spec_i"] + (1 if case["trust"] else 0))
    obs: Counter = Counter()
    keys: set = set()
    violations = []
    sample = None
    for mode in MODES:
        inj = []
        if mode not in ("none", "lookup_fault", "stale_claim"):
            for _ in range(rng.randint(2, 6)):
                do = mode if mode != "mixed" else rng.choice(["rotate", "reset_dedup", "new_processor"])
                inj.append({"at": rng.randrange(1, max(2, ref.steps * 2)), "do": do})
        fp = None
        if mode == "lookup_fault":
            from .. import hooks

            fp = _LookupFault(random.Random(rng.randrange(1 << 30)), 0.35)
            hooks.H.stmt_hook = fp
        try:
            # stale_claim: a worker claims a first delivery and stalls past its lock; the redelivery is handled and
            # committed by another worker; then the stalled worker carries on with the copy it holds
            stale = mode == "stale_claim"
            run = delivery_run(spec, seed=rng.randrange(1 << 30), order=rng.choice(["fifo", "random"]), noack_p=0.0 if stale else 1.0, stale_p=0.5 if stale else 0.0, max_redeliver=1, injections=inj, trust_negative=case["trust"], max_steps=ref.steps * 8 + 200, dedup_items=rng.choice([50, 200, 2000]))
            obs["stale_copies_delivered"] += run.stale_copies_delivered
        finally:
            if fp is not None:
                from .. import hooks

                hooks.H.stmt_hook = None
                obs["lookup_faults_injected"] += fp.fired
        obs["evaluations"] += 1
        if run.budget_exhausted:
            obs["budget_exhausted"] += 1
            continue
        v, o = c02.effect_oracles(spec, run, prop="C09")
        obs.update(o)
        rc, tc = oracles.counts_for(spec, oracles.exec_counts(ref.ledger)), oracles.counts_for(spec, oracles.exec_counts(run.ledger))
        if rc != tc and all(tc.get(k, 0) <= rc.get(k, 0) for k in tc) and oracles.wait_budget_gave_up(run):
            # redeliveries and rescheduled (delayed) deliveries stretched the run until a CompleteWorkflow poll chain
            # used up its wait budget (6 in the harness environment): legal, and says nothing about dedup
            obs["wait_budget_endings"] += 1
        elif rc != tc:
            v.append(viol("C09/execution-count-differs", f"{ {str(k): (rc.get(k, 0), tc.get(k, 0)) for k in set(rc) | set(tc) if rc.get(k, 0) != tc.get(k, 0)} }"))
        v = oracles.attribute(v, run, "C09")
        for x in v:
            x.update(spec=spec["name"], mode=mode, trust=case["trust"])
        violations += v
        groups = oracles.Groups(run.commits)
        marks = {a["a"] for a in run.audit if a["kind"] == "mark"}
        for h in run.handled:
            if h.get("polled") in marks and not h.get("handled"):
                keys.add(f"{h['type']}:{mode}:{case['trust']}")
        if sample is None and mode == "new_processor":
            sample = {"spec": spec["name"], "mode": mode, "trust_negative": case["trust"], "deliveries": [f"{h.get('type')}:{'handled' if h.get('handled') else 'deduplicated'}" for h in run.handled][:50]}
    return {"violations": _uniq(violations), "obs": dict(obs), "keys": sorted(keys), "sample": sample}


def _restart(case: dict) -> dict:
    """Across a real loss of memory: every commit snapshot resumed by a fresh worker with every
    message of the resumed run redelivered once."""
    spec = c01._spec_for(case["spec_i"], case["seed"])
    ref, snaps = crash.reference_with_snapshots(spec)
    obs: Counter = Counter()
    keys: set = set()
    violations = []
    try:
        for k in range(1, snaps.count, 2):
            pre = crash.pre_ledger(ref, snaps, k)
            import os
            import shutil

            from .. import env
            from ..world import World

            path = os.path.join(env.scratch_dir(), f"c09-{os.getpid()}-{k}.db")
            shutil.copyfile(snaps.path(k), path)
            w = World(path=path, ledger=[dict(r) for r in pre], base_time=os.path.getmtime(snaps.path(k)))
            w.owns_file = True
            w.wf_id = w._exec_side("SELECT id FROM pipeline_executions LIMIT 1").fetchone()[0]
            w.run_recovery()
            run = delivery_run({}, world=w, resubmit=False, noack_p=1.0, max_redeliver=1, order="random", seed=k, max_steps=ref.steps * 5 + 100)
            obs["evaluations"] += 1
            v, o = c02.effect_oracles(spec, run, prop="C09")
            obs.update(o)
            for x in v:
                x.update(spec=spec["name"], k=k)
            violations += v
            keys.add(f"restart:{spec['name']}:{snaps.tags[k][0] if snaps.tags[k] else None}")
    finally:
        snaps.cleanup()
    return {"violations": _uniq(violations), "obs": dict(obs), "keys": sorted(keys)}


class BloomContractBroken(Exception):
    pass


def _bloom(case: dict) -> dict:
    from hypothesis import HealthCheck, given, seed, settings
    from hypothesis import strategies as st_

    from stabilize.queue.dedup import BloomDeduplicator

    obs: Counter = Counter()
    keys: set = set()
    violations: list[dict] = []
    contract_evals = Counter()

    # runtime contract on the real class (icontract when installed, plain wrapper otherwise)
    Bloom = BloomDeduplicator
    try:
        import icontract

        def told_is_seen(self, message_id):
            contract_evals["post"] += 1
            return self.maybe_seen(message_id)

        class Bloom(BloomDeduplicator):  # type: ignore[no-redef]
            @icontract.ensure(told_is_seen, error=lambda self, message_id: BloomContractBroken(f"maybe_seen({message_id!r}) is False right after mark_seen"))
            def mark_seen(self, message_id: str) -> None:
                return super().mark_seen(message_id)

        obs["icontract"] = 1
    except ImportError:
        pass

    ops = st_.lists(
        st_.one_of(
            st_.tuples(st_.just("mark"), st_.text(min_size=0, max_size=12)),
            st_.tuples(st_.just("mark"), st_.integers(0, 10**9).map(str)),
            st_.tuples(st_.just("hydrate"), st_.lists(st_.text(max_size=8), max_size=20)),
            st_.tuples(st_.just("reset"), st_.none()),
            st_.tuples(st_.just("query"), st_.text(max_size=12)),
        ),
        min_size=1,
        max_size=60,
    )

    @settings(max_examples=case["examples"], deadline=None, derandomize=False, database=None, suppress_health_check=list(HealthCheck))
    @seed(case["seed"] * 1000 + case["i"])
    @given(st_.sampled_from([1, 2, 7, 50, 1000]), st_.sampled_from([0.5, 0.01, 0.001]), ops)
    def prop(cap, fp, operations):
        b = Bloom(expected_items=cap, false_positive_rate=fp)
        shadow: set[str] = set()
        for op, arg in operations:
            if op == "mark":
                b.mark_seen(arg)
                shadow.add(arg)
            elif op == "hydrate":
                b.hydrate(arg)
                shadow.update(arg)
                if not b.authoritative:
                    raise BloomContractBroken("hydrate() did not grant authority")
            elif op == "reset":
                b.reset()
                shadow.clear()
                if b.authoritative:
                    raise BloomContractBroken("reset() kept authority")
            for x in shadow:
                obs["bloom_ids_checked"] += 1
                if not b.maybe_seen(x):
                    raise BloomContractBroken(f"false negative for {x!r} (capacity {cap}, {len(shadow)} ids told)")
        keys.add(f"bloom:{cap}:{fp}:{min(len(shadow), 5)}")

    try:
        prop()
    except BloomContractBroken as e:
        violations.append(viol("C09/bloom-false-negative", str(e)))
    except Exception as e:  # hypothesis wraps
        if "BloomContractBroken" in repr(e) or "false negative" in str(e):
            violations.append(viol("C09/bloom-false-negative", str(e)[:400]))
        else:
            raise
    obs["evaluations"] += case["examples"]
    obs["contract_evaluations"] = contract_evals["post"]
    return {"violations": violations, "obs": dict(obs), "keys": sorted(keys)}


def _bloom_points(sched, world):
    """Make every operation on the shared in-memory filter a yield point of the cooperative
    scheduler (the wrappers run before the filter takes its own lock)."""
    from stabilize.queue.dedup import BloomDeduplicator as B

    names = [n for n in ("maybe_seen", "mark_seen", "reset", "hydrate", "_get_hash_positions", "is_definitely_new", "should_reset") if n in B.__dict__]
    saved = {n: B.__dict__[n] for n in names + ["authoritative"]}
    counts = world.bloom_ops = Counter()

    def wrap(name):
        orig = saved[name]

        def f(self, *a, **k):
            counts[name] += 1
            sched.point("bloom:" + name + (":" + str(a[0])[:12] if name in ("maybe_seen", "mark_seen", "is_definitely_new") and a else ""))
            return orig(self, *a, **k)

        return f

    for n in names:
        setattr(B, n, wrap(n))
    pget = saved["authoritative"].fget

    def auth(self):
        sched.point("bloom:authoritative")
        return pget(self)

    B.authoritative = property(auth)

    def undo():
        for n, v in saved.items():
            setattr(B, n, v)

    return undo


def _threads(case: dict) -> dict:
    from .. import interleave

    rng = random.Random(case["seed"] * 7919 + case["i"])
    shapes = [specs.diamond(), specs.first_of(3), specs.quorum(3, 2), specs.multitask(), specs.or_split(), specs.jump_loop(1, 2), specs.polling(2), specs.transient(2, True), specs.random_dag(rng, rng.randint(4, 7))]
    spec = shapes[case["i"] % len(shapes)]
    nworkers = case.get("workers") or rng.choice([2, 3, 3, 4])
    pol = interleave.RandomPolicy(rng.randrange(1 << 30), switch_p=rng.choice([0.15, 0.3, 0.5])) if case["i"] % 3 else interleave.PCT(rng.randrange(1 << 30), d=rng.choice([2, 3, 5]), horizon=rng.choice([300, 1200]))
    forgotten: set = set()
    p_forget = rng.choice([0.5, 1.0])

    p_age = case.get("p_age", rng.choice([0.0, 0.1, 0.3]))

    def ack_fn(w, msg):
        if rng.random() < p_age:
            # virtual time: the filter's 24 h age limit passes (age-based rotation on the next message)
            from stabilize.queue.dedup import get_deduplicator

            get_deduplicator()._creation_time -= 90000.0
        if msg.message_id in forgotten or rng.random() > p_forget:
            return True
        forgotten.add(msg.message_id)
        return False

    records: list = []
    holder: dict = {}

    def with_sched(sched, world):
        holder["w"] = world
        if case.get("mixed"):
            # two QueueProcessor objects in one process sharing the global filter, one trusting its negatives and
            # one not (both legal as long as the process is the only writer): odd workers run the other one
            import copy
            import dataclasses

            p2 = copy.copy(world.processor)
            p2.config = dataclasses.replace(world.processor.config, dedup_trust_negative_cache=not case["trust"])
            world.processor_by_thread = {f"W{i}": p2 for i in range(1, 8, 2)}
        return _bloom_points(sched, world)

    run, info = interleave.run_workers(spec, nworkers, pol, world_kw={"dedup_items": rng.choice([8, 200, 200, 1000]), "trust_negative": case["trust"]}, ack_fn=ack_fn, records=records, with_sched=with_sched, max_msgs=500, watchdog=120.0)
    obs: Counter = Counter()
    obs["evaluations"] += 1
    if run is None:
        obs["scheduler_failed"] += 1
        return {"violations": [], "obs": dict(obs), "keys": [], "inconclusive": info.get("failed")}
    ops = getattr(holder.get("w"), "bloom_ops", Counter())
    obs["threaded_rotations"] += ops.get("reset", 0)
    obs["threaded_hydrations"] += ops.get("hydrate", 0)
    obs["threaded_filter_ops"] += sum(ops.values())
    obs["threaded_switches"] += info["switches"]
    mark_seq: dict = {}
    for a in run.audit:
        if a["kind"] == "mark" and a["op"] == "ins":
            mark_seq.setdefault(a["a"], a["seq"])
    violations = []
    keys: set = set()
    for r in records:
        ms = mark_seq.get(r["polled"])
        if ms is not None and ms <= r["pre_seq"]:
            obs["threaded_marked_redeliveries"] += 1
            keys.add(f"threads:{r['type']}:{case['trust']}:{bool(case.get('mixed'))}")
            if case.get("mixed"):
                obs["threaded_marked_redeliveries_mixed_config"] += 1
            if r["handled"]:
                violations.append(viol("C09/handled-although-marked:threads", f"{r['type']} {r['polled']} entered its handler on {r['thread']} although its processed mark (seq {ms}) was durable before the poll (seq {r['pre_seq']}); trust_negative={case['trust']}, filter ops {dict(ops)}", trace_hash=info["trace_hash"]))
    v2, _ = c02.effect_oracles(spec, run, prop="C09")
    violations += [x for x in v2 if "handled-although-marked" not in x["sig"]]
    for x in violations:
        x.update(spec=spec["name"], workers=nworkers, trust=case["trust"])
    return {"violations": _uniq(violations), "obs": dict(obs), "keys": sorted(keys)}


def _protocol(case: dict) -> dict:
    """The dedup protocol of QueueProcessor._handle_message in isolation, at volume: 3-5 threads of one
    process push fresh and already-processed message ids through the real _handle_message (real store, real
    global filter, a no-op handler), the filter's age limit passes at random moments so rotations overlap
    with handling and with each other.  An id taken from the harness's 'done' list (its _handle_message call
    returned, so its processed row is durable) must never reach the handler."""
    import threading

    from stabilize.queue.dedup import get_deduplicator
    from stabilize.queue.messages import StartWorkflow

    from .. import interleave
    from ..world import World

    rng = random.Random(case["seed"] * 104729 + case["i"])
    interleave.prepare_env()
    w = World(dedup_items=rng.choice([8, 64, 400]), trust_negative=case["trust"])
    entered: list = []
    done: list = []
    obs: Counter = Counter()

    class NoOp:
        def handle(self, message):
            entered.append(message.message_id)

    w.processor._handlers[StartWorkflow] = NoOp()
    nthreads = rng.choice([3, 4, 5])
    per = rng.choice([25, 40])
    p_age = rng.choice([0.05, 0.2, 0.5])
    p_old = rng.choice([0.4, 0.7])
    pol = interleave.RandomPolicy(rng.randrange(1 << 30), switch_p=rng.choice([0.2, 0.4, 0.6])) if case["i"] % 3 else interleave.PCT(rng.randrange(1 << 30), d=rng.choice([3, 6, 10]), horizon=rng.choice([500, 3000]))
    sched = interleave.Scheduler(pol, watchdog=120.0)
    w.commit_listeners.append(lambda world, idx, conn: sched.commit_event(conn))
    violations: list = []
    counter = [0]
    rngs = {f"W{i}": random.Random(rng.randrange(1 << 30)) for i in range(nthreads)}

    def body() -> None:
        me = threading.current_thread().name
        r = rngs[me]
        for _ in range(per):
            if r.random() < p_age:
                get_deduplicator()._creation_time -= 90000.0
            old = bool(done) and r.random() < p_old
            if old:
                mid = r.choice(done)
            else:
                counter[0] += 1
                mid = f"m{counter[0]}"
            before = entered.count(mid)
            try:
                w.processor._handle_message(StartWorkflow(execution_type="PIPELINE", execution_id="x", message_id=mid))
            except Exception as e:  # lock conflict delivered to the application: the delivery failed, message comes back
                obs["failed_deliveries"] += 1
                try:
                    w.store._get_connection().rollback()
                except Exception:
                    pass
                continue
            if old:
                obs["threaded_marked_redeliveries"] += 1
                if entered.count(mid) > before:
                    violations.append(viol("C09/handled-although-marked:protocol", f"id {mid} had been handled and marked (call returned) before this delivery started on {me}, yet the handler was entered again; trust_negative={case['trust']}"))
            else:
                done.append(mid)

    undo = _bloom_points(sched, w)
    try:
        sched.run({n: body for n in rngs})
    finally:
        undo()
    ops = w.bloom_ops
    obs["evaluations"] += 1
    obs["threaded_rotations"] += ops.get("reset", 0)
    obs["threaded_hydrations"] += ops.get("hydrate", 0)
    obs["threaded_filter_ops"] += sum(ops.values())
    obs["threaded_switches"] += sched.switches
    failed = sched.failed
    errs = {k: repr(v)[:200] for k, v in sched.errors.items()}
    w.close()
    if failed or errs:
        obs["scheduler_failed"] += 1
        return {"violations": [], "obs": dict(obs), "keys": [], "inconclusive": failed or str(errs)}
    return {"violations": _uniq(violations), "obs": dict(obs), "keys": [f"protocol:{case['trust']}:{nthreads}"] if obs["threaded_marked_redeliveries"] else []}


def _uniq(vs: list[dict]) -> list[dict]:
    seen = set()
    out = []
    for x in vs:
        if x["sig"] not in seen:
            seen.add(x["sig"])
            out.append(x)
    return out


def run_case(case: dict) -> dict:
    if case["kind"] == "redeliver":
        return _redeliver(case)
    if case["kind"] == "restart":
        return _restart(case)
    if case["kind"] == "threads":
        return _threads(case)
    if case["kind"] == "protocol":
        return _protocol(case)
    return _bloom(case)

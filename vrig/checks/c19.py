"""C19 - what is stored or queued is read back unchanged."""

from __future__ import annotations

import copy
import dataclasses
import json
import typing
from collections import Counter
from datetime import datetime

from ..framework import viol
from ..world import World

ID = "C19"
LEVEL = "exploration"
RULE = (
    "hypothesis strategies (seeded from VERIF_SEED): workflows of 1-4 stages with every stage field (dependencies, "
    "join / split type and threshold, split conditions, mi_config, deferred choice, milestone, mutex, cancel region, "
    "output reducers, parent / synthetic owner, times), every WorkflowStatus / JoinType / SplitType member, 0-8 tasks "
    "created in a tight loop, context / outputs / trigger of nested JSON values (astral and combining unicode, escapes, "
    "empty and 20k-character strings, ints beyond 2^63, finite floats, booleans, None); store -> retrieve / "
    "retrieve_stage compared field by field (contexts after one JSON round trip of the input); then a random subset F "
    "of the updatable fields is changed and saved through one of the four save paths (store.store_stage / txn.store_stage, with / without expected_phase): fields in F hold the new values, everything else is as "
    "before. Messages: every class in MESSAGE_TYPES with generated field values pushed via SqliteQueue.push and via "
    "AtomicTransaction.push_message, polled, compared on type and non-metadata fields, and the two stored payloads "
    "compared with each other. Non-trivial = example with a non-default value in >= 1 field; distinct = (statuses, "
    "join / split types, #tasks, JSON value kinds present) / (message class, value kinds)."
)
ASSUMPTIONS = ["SQLite backend", "JSON-representable values: no NaN / Infinity, string keys, no tuples; text stored in plain TEXT columns (ids, refs, names, keys) has no NUL character"]
MIN_OBS = {"workflows_round_tripped": {"quick": 400, "thorough": 10000}, "messages_round_tripped": {"quick": 1500, "thorough": 40000}, "partial_updates_checked": {"quick": 400, "thorough": 10000}}
TIMEOUT = {"quick": 800, "thorough": 3400}


def gen_cases(tier: str, seed: int) -> list[dict]:
    n, ex = (16, 30) if tier == "quick" else (64, 180)
    cases = [{"kind": "workflow", "i": i, "seed": seed, "examples": ex} for i in range(n)]
    cases += [{"kind": "message", "i": i, "seed": seed, "examples": ex * 4} for i in range(n)]
    return cases


def _strategies():
    from hypothesis import strategies as st

    text = st.text(alphabet=st.characters(blacklist_categories=("Cs",), blacklist_characters="\x00"), max_size=12)
    rich_text = st.one_of(
        st.text(max_size=20),
        st.sampled_from(["", " ", "𝓍𝔶𝔷", "é", "‮ rtl", 'quote"s', "back\\slash", "new\nline", "\t", "null\u0000inside", "x" * 20000, "💥" * 50, "퟿"]),
    )
    json_leaf = st.one_of(
        st.none(),
        st.booleans(),
        st.integers(-(2**70), 2**70),
        st.floats(allow_nan=False, allow_infinity=False),
        rich_text,
    )
    json_val = st.recursive(json_leaf, lambda ch: st.one_of(st.lists(ch, max_size=4), st.dictionaries(rich_text, ch, max_size=4)), max_leaves=12)
    json_dict = st.dictionaries(st.text(max_size=10), json_val, max_size=5)
    return st, text, rich_text, json_val, json_dict


def _jr(x):
    return json.loads(json.dumps(x, default=str))


def _kinds(x, acc: set) -> set:
    if isinstance(x, dict):
        acc.add("dict")
        for k, v in x.items():
            _kinds(v, acc)
    elif isinstance(x, list):
        acc.add("list")
        for v in x:
            _kinds(v, acc)
    elif isinstance(x, bool):
        acc.add("bool")
    elif isinstance(x, int):
        acc.add("bigint" if abs(x) > 2**63 else "int")
    elif isinstance(x, float):
        acc.add("float")
    elif x is None:
        acc.add("none")
    elif isinstance(x, str):
        acc.add("astral" if any(ord(c) > 0xFFFF for c in x) else "long" if len(x) > 1000 else "str")
    return acc


STAGE_FIELDS = [
    "id", "ref_id", "type", "name", "status", "context", "outputs", "requisite_stage_ref_ids", "parent_stage_id",
    "synthetic_stage_owner", "start_time", "end_time", "start_time_expiry", "scheduled_time", "join_type",
    "join_threshold", "split_type", "split_conditions", "mi_config", "deferred_choice_group", "milestone_ref_id",
    "milestone_status", "mutex_key", "cancel_region", "output_reducers",
]
TASK_FIELDS = ["id", "name", "implementing_class", "status", "start_time", "end_time", "stage_start", "stage_end", "loop_start", "loop_end", "task_exception_details"]
WF_FIELDS = [
    "id", "type", "application", "name", "status", "context", "start_time", "end_time", "start_time_expiry", "is_canceled",
    "canceled_by", "cancellation_reason", "pipeline_config_id", "is_limit_concurrent", "max_concurrent_executions",
    "keep_waiting_pipelines", "origin",
]


def _stage_view(s) -> dict:
    d = {}
    for f in STAGE_FIELDS:
        v = getattr(s, f)
        if f in ("context", "outputs", "split_conditions", "output_reducers"):
            v = _jr(v)
        elif f == "requisite_stage_ref_ids":
            v = sorted(v)
        elif f == "mi_config":
            v = v.to_dict() if v else None
        elif hasattr(v, "name") and hasattr(v, "value"):
            v = v.name
        d[f] = v
    d["tasks"] = [_task_view(t) for t in s.tasks]
    return d


def _task_view(t) -> dict:
    d = {}
    for f in TASK_FIELDS:
        v = getattr(t, f)
        if f == "task_exception_details":
            v = _jr(v)
        elif hasattr(v, "name") and hasattr(v, "value"):
            v = v.name
        d[f] = v
    return d


def _wf_view(w) -> dict:
    d = {}
    for f in WF_FIELDS:
        v = getattr(w, f)
        if f == "context":
            v = _jr(v)
        elif hasattr(v, "name") and hasattr(v, "value"):
            v = v.name
        d[f] = v
    d["trigger"] = _jr(w.trigger.to_dict())
    d["paused"] = dataclasses.asdict(w.paused) if w.paused else None
    return d


def _diff(a: dict, b: dict, prefix: str = "") -> list[str]:
    out = []
    for k in a:
        if k == "tasks":
            if len(a[k]) != len(b[k]):
                out.append(f"{prefix}tasks: {len(a[k])} written, {len(b[k])} read")
            else:
                for i, (x, y) in enumerate(zip(a[k], b[k])):
                    out += _diff(x, y, f"{prefix}tasks[{i}].")
        elif a[k] != b.get(k):
            out.append(f"{prefix}{k}: wrote {str(a[k])[:80]!r} read {str(b.get(k))[:80]!r}")
    return out


def _workflow_case(case: dict) -> dict:
    from hypothesis import HealthCheck, given, seed, settings

    from stabilize.models.multi_instance import MultiInstanceConfig
    from stabilize.models.stage import JoinType, SplitType, StageExecution, SyntheticStageOwner
    from stabilize.models.status import WorkflowStatus
    from stabilize.models.task import TaskExecution
    from stabilize.models.workflow import PausedDetails, Trigger, Workflow, WorkflowType

    st, text, rich_text, json_val, json_dict = _strategies()
    obs: Counter = Counter()
    keys: set = set()
    violations: list[dict] = []
    w = World()
    opt = lambda s: st.one_of(st.none(), s)  # noqa: E731
    times = opt(st.integers(0, 2**53))

    @st.composite
    def stages(draw, refs, i):
        ntasks = draw(st.integers(0, 8))
        tasks = [
            TaskExecution(
                name=draw(text) or f"t{j}",
                implementing_class=draw(text) or "x",
                status=draw(st.sampled_from(list(WorkflowStatus))),
                start_time=draw(times),
                end_time=draw(times),
                stage_start=draw(st.booleans()),
                stage_end=draw(st.booleans()),
                loop_start=draw(st.booleans()),
                loop_end=draw(st.booleans()),
                task_exception_details=draw(json_dict),
            )
            for j in range(ntasks)
        ]
        jt = draw(st.sampled_from(list(JoinType)))
        mi = draw(opt(st.builds(MultiInstanceConfig, count=st.integers(0, 5), count_from_context=text, sync_on_complete=st.booleans(), allow_dynamic=st.booleans(), collection_from_context=text, join_threshold=st.integers(0, 5), cancel_remaining=st.booleans())))
        return StageExecution(
            ref_id=refs[i],
            type=draw(text) or "t",
            name=draw(text),
            status=draw(st.sampled_from(list(WorkflowStatus))),
            context=draw(json_dict),
            outputs=draw(json_dict),
            tasks=tasks,
            requisite_stage_ref_ids=set(draw(st.lists(st.sampled_from(refs[:i]), max_size=3))) if i else set(),
            parent_stage_id=draw(opt(text)),
            synthetic_stage_owner=draw(opt(st.sampled_from(list(SyntheticStageOwner)))),
            start_time=draw(times),
            end_time=draw(times),
            start_time_expiry=draw(times),
            scheduled_time=draw(times),
            join_type=jt,
            join_threshold=draw(st.integers(0, 9)),
            split_type=draw(st.sampled_from(list(SplitType))),
            split_conditions=draw(st.dictionaries(text, rich_text, max_size=3)),
            mi_config=mi,
            deferred_choice_group=draw(opt(text)),
            milestone_ref_id=draw(opt(text)),
            milestone_status=draw(opt(st.sampled_from([s.name for s in WorkflowStatus]))),
            mutex_key=draw(opt(text)),
            cancel_region=draw(opt(text)),
            output_reducers=draw(st.dictionaries(text, st.sampled_from(["sum", "collect", "max", "merge"]), max_size=2)),
        )

    @st.composite
    def workflows(draw):
        n = draw(st.integers(1, 4))
        refs = draw(st.lists(text.filter(bool), min_size=n, max_size=n, unique=True))
        sts = [draw(stages(refs, i)) for i in range(n)]
        return Workflow(
            type=draw(st.sampled_from(list(WorkflowType))),
            application=draw(text),
            name=draw(text),
            status=draw(st.sampled_from(list(WorkflowStatus))),
            stages=sts,
            context=draw(json_dict),
            trigger=Trigger(type=draw(text), user=draw(text), parameters=draw(json_dict), artifacts=draw(st.lists(json_dict, max_size=2)), payload=draw(json_dict)),
            start_time=draw(times),
            end_time=draw(times),
            start_time_expiry=draw(times),
            is_canceled=draw(st.booleans()),
            canceled_by=draw(opt(text)),
            cancellation_reason=draw(opt(text)),
            paused=draw(opt(st.builds(PausedDetails, paused_by=text, pause_time=times, resume_time=times, paused_ms=st.integers(0, 10**9)))),
            pipeline_config_id=draw(opt(text)),
            is_limit_concurrent=draw(st.booleans()),
            max_concurrent_executions=draw(st.integers(0, 50)),
            keep_waiting_pipelines=draw(st.booleans()),
            origin=draw(text.filter(bool)),
        )

    failures: list = []

    @settings(max_examples=case["examples"], deadline=None, database=None, suppress_health_check=list(HealthCheck))
    @seed(case["seed"] * 7919 + case["i"])
    @given(workflows(), st.randoms(use_true_random=False))
    def prop(wf, rnd):
        store = w.store
        want = _wf_view(wf)
        want_stages = {s.id: _stage_view(s) for s in wf.stages}
        store.store(wf)
        got = store.retrieve(wf.id)
        obs["workflows_round_tripped"] += 1
        d = _diff(want, _wf_view(got))
        for s in got.stages:
            d += _diff(want_stages[s.id], _stage_view(s), f"stage[{s.ref_id!r}].")
        if len(got.stages) != len(wf.stages):
            d.append(f"{len(wf.stages)} stages written, {len(got.stages)} read")
        if d:
            failures.append(("C19/workflow-round-trip:" + d[0].split(":")[0].split(".")[-1].split("[")[0], d[:3]))
        kinds: set = set()
        for s in wf.stages:
            _kinds(s.context, kinds)
            _kinds(s.outputs, kinds)
        keys.add(f"wf:{wf.status.name}:{sorted({s.join_type.name for s in wf.stages})}:{min(max(len(s.tasks) for s in wf.stages), 8)}:{sorted(kinds)}")
        # retrieve_stage + partial update
        s0 = wf.stages[rnd.randrange(len(wf.stages))]
        one = store.retrieve_stage(s0.id)
        d = _diff(want_stages[s0.id], _stage_view(one), "retrieve_stage.")
        if d:
            failures.append(("C19/retrieve-stage-differs:" + d[0].split(":")[0].split(".")[-1].split("[")[0], d[:3]))
        for _round in range(2):
            # two successive partial updates of the same stage: the second may change or CLEAR (None) what the first set
            before = _stage_view(one)
            changed = {}
            for f in ("status", "context", "outputs", "start_time", "end_time"):
                if rnd.random() < 0.5:
                    if f == "status":
                        one.status = rnd.choice(list(WorkflowStatus))
                        changed[f] = one.status.name
                    elif f in ("context", "outputs"):
                        newv = {"changed": [rnd.random(), {"k": None}], **({} if rnd.random() < 0.5 else getattr(one, f))}
                        if f == "context" and "_output_reducers" in one.context:
                            newv["_output_reducers"] = one.context["_output_reducers"]  # reducers persist through the context
                        setattr(one, f, newv)
                        changed[f] = _jr(newv)
                    else:
                        setattr(one, f, rnd.choice([None, rnd.randrange(10**12)]))
                        changed[f] = getattr(one, f)
            if one.tasks and rnd.random() < 0.5:
                t = rnd.choice(one.tasks)
                t.status = rnd.choice(list(WorkflowStatus))
                t.end_time = rnd.choice([None, rnd.randrange(10**12)])
                t.start_time = rnd.choice([None, rnd.randrange(10**12)])
                t.task_exception_details = rnd.choice([{}, {"exception": "x", "n": [1, None]}])
                changed["task"] = t.id
            path = rnd.choice(["plain", "plain_phase", "txn", "txn_phase"])
            phase = before["status"] if path.endswith("phase") else None
            if path.startswith("plain"):
                store.store_stage(one, expected_phase=phase) if phase else store.store_stage(one)
            else:
                with store.transaction(w.queue) as txn:
                    txn.store_stage(one, expected_phase=phase) if phase else txn.store_stage(one)
            obs[f"save_path_{path}"] += 1
            saved_tasks = [_task_view(t) for t in one.tasks]  # what was handed to the store
            one = store.retrieve_stage(s0.id)
            after = _stage_view(one)
            obs["partial_updates_checked"] += 1
            expect = dict(before)
            for f, v in changed.items():
                if f != "task":
                    expect[f] = v
            expect["tasks"] = saved_tasks
            d = _diff(expect, after, "after-store_stage.")
            if d:
                fld = d[0].split(":")[0].split(".")[-1].split("[")[0]
                kind = "changed-field-not-saved" if fld in changed or (fld in TASK_FIELDS and "task" in changed) else "store-stage-altered-other-field"
                failures.append((f"C19/{kind}:{fld}", [f"save path {path}; changed {sorted(changed)}"] + d[:3]))

    try:
        prop()
    finally:
        w.close()
    seen = set()
    for sig, detail in failures:
        if sig not in seen:
            seen.add(sig)
            violations.append(viol(sig, "; ".join(detail)))
    obs["evaluations"] = obs["workflows_round_tripped"]
    return {"violations": violations, "obs": dict(obs), "keys": sorted(keys)}


META = {"message_id", "created_at", "attempts", "max_attempts", "last_error", "last_error_type"}


def _message_case(case: dict) -> dict:
    from hypothesis import HealthCheck, given, seed, settings

    from stabilize.models.stage import SyntheticStageOwner
    from stabilize.models.status import WorkflowStatus
    from stabilize.queue.messages import MESSAGE_TYPES

    st, text, rich_text, json_val, json_dict = _strategies()
    obs: Counter = Counter()
    keys: set = set()
    failures: list = []
    w = World()

    def strat_for(cls):
        hints = typing.get_type_hints(cls)
        kw = {}
        for f in dataclasses.fields(cls):
            if f.name in META:
                continue
            t = hints[f.name]
            ts = str(t)
            if t is str:
                kw[f.name] = rich_text
            elif t is int:
                kw[f.name] = st.integers(-(2**40), 2**40)
            elif t is bool:
                kw[f.name] = st.booleans()
            elif "WorkflowStatus" in ts and "None" in ts:
                kw[f.name] = st.one_of(st.none(), st.sampled_from(list(WorkflowStatus)))
            elif "WorkflowStatus" in ts:
                kw[f.name] = st.sampled_from(list(WorkflowStatus))
            elif "SyntheticStageOwner" in ts:
                kw[f.name] = st.sampled_from(list(SyntheticStageOwner))
            elif "dict" in ts:
                kw[f.name] = json_dict
            else:
                raise AssertionError(f"no strategy for {cls.__name__}.{f.name}: {t}")
        return st.builds(cls, **kw)

    any_message = st.one_of([strat_for(c) for c in MESSAGE_TYPES.values()])

    def fields(m) -> dict:
        return {k: (v.name if hasattr(v, "value") and hasattr(v, "name") else _jr(v)) for k, v in m.__dict__.items() if k not in META and not k.startswith("_")}

    @settings(max_examples=case["examples"], deadline=None, database=None, suppress_health_check=list(HealthCheck))
    @seed(case["seed"] * 104729 + case["i"])
    @given(any_message)
    def prop(msg):
        q = w.queue
        want = fields(msg)
        m2 = copy.deepcopy(msg)
        def scribble(m) -> None:
            # the producer goes on using ITS object after the push (re-targets it for the next recipient, updates
            # a dict it passed in): what was pushed is what the object held at the time of the push
            for fname, v in list(m.__dict__.items()):
                if fname in META or fname.startswith("_"):
                    continue
                if isinstance(v, dict):
                    v["changed_by_producer_after_push"] = True
                elif isinstance(v, bool):
                    setattr(m, fname, not v)
                elif isinstance(v, int):
                    setattr(m, fname, v + 3)
                elif isinstance(v, str):
                    setattr(m, fname, v + "-reused")

        q.push(msg)
        scribble(msg)
        with w.store.transaction(q) as txn:
            txn.push_message(m2, 0)
            scribble(m2)
        obs["producer_mutations_after_push"] += 2
        rows = w._exec_side("SELECT id, message_type, payload FROM queue_messages ORDER BY id").fetchall()
        obs["messages_round_tripped"] += 1
        if len(rows) != 2:
            failures.append(("C19/push-row-count", [f"{len(rows)} rows after two pushes"]))
        else:
            p1, p2 = json.loads(rows[0][2]), json.loads(rows[1][2])
            for p in (p1, p2):
                for k in ("message_id", "created_at"):
                    p.pop(k, None)
            if p1 != p2 or rows[0][1] != rows[1][1]:
                bad = sorted(k for k in set(p1) | set(p2) if p1.get(k) != p2.get(k))
                failures.append(("C19/serialisers-disagree:" + (bad[0] if bad else "type"), [f"{type(msg).__name__}: queue.push payload {str(p1)[:150]} vs transactional payload {str(p2)[:150]}"]))
        got = []
        for ri, r in enumerate(rows):
            w.expose(r[0])
            m = q.poll_one()
            if m is not None and ri == 0:
                # first holder: scribbles on ITS message object (what a failing handler / the processor's error
                # path do), never acks, its lock lapses; the SAME queue instance then delivers the row again -
                # the redelivered message must be what was pushed, not the first holder's object
                try:
                    m.set_error_context(RuntimeError("first holder failed"))
                    for fname, v in list(m.__dict__.items()):
                        if fname in META or fname.startswith("_"):
                            continue
                        if isinstance(v, dict):
                            v["scribbled_by_first_holder"] = True
                        elif isinstance(v, int) and not isinstance(v, bool) and fname == "retry_count":
                            setattr(m, fname, v + 7)
                except Exception:
                    pass
                w.harness_write([("UPDATE queue_messages SET locked_until = NULL WHERE id = ?", (r[0],))])
                w.expose(r[0])
                m = q.poll_one()
                obs["redelivered_after_first_holder_mutation"] += 1
            got.append(m)
            if m is not None:
                q.ack(m)
        w._exec_side("DELETE FROM queue_messages")
        w._exec_side("DELETE FROM queue_messages_dlq")
        for via, m in zip(("queue.push", "txn.push_message"), got):
            if m is None:
                failures.append(("C19/message-not-delivered", [f"{type(msg).__name__} via {via}: poll returned None ({want})"]))
                continue
            if type(m) is not type(msg):
                failures.append(("C19/message-type-changed", [f"{type(msg).__name__} delivered as {type(m).__name__} via {via}"]))
            gotf = fields(m)
            if gotf != want:
                bad = sorted(k for k in want if want[k] != gotf.get(k))
                failures.append((f"C19/message-field-changed:{type(msg).__name__}.{bad[0] if bad else '?'}", [f"via {via}: pushed {str(want)[:160]} delivered {str(gotf)[:160]}"]))
        kinds: set = set()
        _kinds(want, kinds)
        keys.add(f"msg:{type(msg).__name__}:{sorted(kinds)}")

    try:
        prop()
    finally:
        w.close()
    violations = []
    seen = set()
    for sig, detail in failures:
        if sig not in seen:
            seen.add(sig)
            violations.append(viol(sig, "; ".join(detail)))
    obs["evaluations"] = obs["messages_round_tripped"]
    return {"violations": violations, "obs": dict(obs), "keys": sorted(keys)}


def run_case(case: dict) -> dict:
    return _workflow_case(case) if case["kind"] == "workflow" else _message_case(case)


_ = datetime

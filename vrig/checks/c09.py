"""C09 - a message whose handling committed is never handled again, even after restart."""

from __future__ import annotations

import random
from collections import Counter

from .. import crash, oracles, specs
from ..framework import viol
from ..runs import delivery_run
from . import c01, c02

ID = "C09"
LEVEL = "exploration"
RULE = (
    "(a) case = workflow x mode; the ack of EVERY message of the run is withheld once so each message comes back "
    "later, while the in-memory filter is disturbed between deliveries: nothing / forced rotation (reset) / global "
    "filter dropped / processor re-created (fresh filter + hydration) at random steps, with dedup_trust_negative_cache "
    "off and on, and across a real restart (crash snapshots resumed as a fresh worker, every message redelivered). "
    "Oracle: a delivery whose processed mark was durable before the delivery's claim commit never enters a handler; "
    "no task executes after its completion is durable; execution counts equal the exactly-once reference. "
    "(b) the filter itself: hypothesis-generated id sets (arbitrary unicode, tiny and large capacities) under a shadow "
    "set contract: maybe_seen(x) is True for every x told via mark_seen / hydrate since the last reset. Non-trivial = "
    "redelivery of an already marked message; distinct = (message type, disturbance mode, trust flag)."
)
ASSUMPTIONS = ["SQLite backend", "dedup_trust_negative_cache=True only in the single-writer setting the option documents"]
MIN_OBS = {"marked_redeliveries": {"quick": 2000, "thorough": 30000}, "bloom_ids_checked": {"quick": 5000, "thorough": 100000}}
TIMEOUT = {"quick": 800, "thorough": 3400}

MODES = ["none", "rotate", "reset_dedup", "new_processor", "mixed"]


def gen_cases(tier: str, seed: int) -> list[dict]:
    n = 30 if tier == "quick" else 200
    cases = []
    for i in range(n):
        for trust in (False, True):
            cases.append({"kind": "redeliver", "spec_i": i, "seed": seed, "trust": trust})
    for i in range(4 if tier == "quick" else 20):
        cases.append({"kind": "restart", "spec_i": i * 2, "seed": seed})
    for i in range(4 if tier == "quick" else 40):
        cases.append({"kind": "bloom", "i": i, "seed": seed, "examples": 150 if tier == "quick" else 600})
    return cases


def _redeliver(case: dict) -> dict:
    spec = c01._spec_for(case["spec_i"], case["seed"])
    ref = delivery_run(spec)
    rng = random.Random(case["seed"] * 23 + case["spec_i"] + (1 if case["trust"] else 0))
    obs: Counter = Counter()
    keys: set = set()
    violations = []
    sample = None
    for mode in MODES:
        inj = []
        if mode != "none":
            for _ in range(rng.randint(2, 6)):
                do = mode if mode != "mixed" else rng.choice(["rotate", "reset_dedup", "new_processor"])
                inj.append({"at": rng.randrange(1, max(2, ref.steps * 2)), "do": do})
        run = delivery_run(spec, seed=rng.randrange(1 << 30), order=rng.choice(["fifo", "random"]), noack_p=1.0, max_redeliver=1, injections=inj, trust_negative=case["trust"], max_steps=ref.steps * 5 + 100, dedup_items=rng.choice([50, 200, 2000]))
        obs["evaluations"] += 1
        if run.budget_exhausted:
            obs["budget_exhausted"] += 1
            continue
        v, o = c02.effect_oracles(spec, run, prop="C09")
        obs.update(o)
        rc, tc = oracles.exec_counts(ref.ledger), oracles.exec_counts(run.ledger)
        if rc != tc:
            v.append(viol("C09/execution-count-differs", f"{ {str(k): (rc.get(k, 0), tc.get(k, 0)) for k in set(rc) | set(tc) if rc.get(k, 0) != tc.get(k, 0)} }"))
        v = oracles.attribute(v, run, "C09")
        for x in v:
            x.update(spec=spec["name"], mode=mode, trust=case["trust"])
        violations += v
        groups = oracles.Groups(run.commits)
        marks = {a["a"] for a in run.audit if a["kind"] == "mark"}
        for h in run.handled:
            if h.get("polled") in marks and not h.get("handled"):
                keys.add(f"{h['type']}:{mode}:{case['trust']}")
        if sample is None and mode == "new_processor":
            sample = {"spec": spec["name"], "mode": mode, "trust_negative": case["trust"], "deliveries": [f"{h.get('type')}:{'handled' if h.get('handled') else 'deduplicated'}" for h in run.handled][:50]}
    return {"violations": _uniq(violations), "obs": dict(obs), "keys": sorted(keys), "sample": sample}


def _restart(case: dict) -> dict:
    """Across a real loss of memory: every commit snapshot resumed by a fresh worker with every
    message of the resumed run redelivered once."""
    spec = c01._spec_for(case["spec_i"], case["seed"])
    ref, snaps = crash.reference_with_snapshots(spec)
    obs: Counter = Counter()
    keys: set = set()
    violations = []
    try:
        for k in range(1, snaps.count, 2):
            pre = crash.pre_ledger(ref, snaps, k)
            import os
            import shutil

            from .. import env
            from ..world import World

            path = os.path.join(env.scratch_dir(), f"c09-{os.getpid()}-{k}.db")
            shutil.copyfile(snaps.path(k), path)
            w = World(path=path, ledger=[dict(r) for r in pre])
            w.owns_file = True
            w.wf_id = w._exec_side("SELECT id FROM pipeline_executions LIMIT 1").fetchone()[0]
            w.run_recovery()
            run = delivery_run({}, world=w, resubmit=False, noack_p=1.0, max_redeliver=1, order="random", seed=k, max_steps=ref.steps * 5 + 100)
            obs["evaluations"] += 1
            v, o = c02.effect_oracles(spec, run, prop="C09")
            obs.update(o)
            for x in v:
                x.update(spec=spec["name"], k=k)
            violations += v
            keys.add(f"restart:{spec['name']}:{snaps.tags[k][0] if snaps.tags[k] else None}")
    finally:
        snaps.cleanup()
    return {"violations": _uniq(violations), "obs": dict(obs), "keys": sorted(keys)}


class BloomContractBroken(Exception):
    pass


def _bloom(case: dict) -> dict:
    from hypothesis import HealthCheck, given, seed, settings
    from hypothesis import strategies as st_

    from stabilize.queue.dedup import BloomDeduplicator

    obs: Counter = Counter()
    keys: set = set()
    violations: list[dict] = []
    contract_evals = Counter()

    # runtime contract on the real class (icontract when installed, plain wrapper otherwise)
    Bloom = BloomDeduplicator
    try:
        import icontract

        def told_is_seen(self, message_id):
            contract_evals["post"] += 1
            return self.maybe_seen(message_id)

        class Bloom(BloomDeduplicator):  # type: ignore[no-redef]
            @icontract.ensure(told_is_seen, error=lambda self, message_id: BloomContractBroken(f"maybe_seen({message_id!r}) is False right after mark_seen"))
            def mark_seen(self, message_id: str) -> None:
                return super().mark_seen(message_id)

        obs["icontract"] = 1
    except ImportError:
        pass

    ops = st_.lists(
        st_.one_of(
            st_.tuples(st_.just("mark"), st_.text(min_size=0, max_size=12)),
            st_.tuples(st_.just("mark"), st_.integers(0, 10**9).map(str)),
            st_.tuples(st_.just("hydrate"), st_.lists(st_.text(max_size=8), max_size=20)),
            st_.tuples(st_.just("reset"), st_.none()),
            st_.tuples(st_.just("query"), st_.text(max_size=12)),
        ),
        min_size=1,
        max_size=60,
    )

    @settings(max_examples=case["examples"], deadline=None, derandomize=False, database=None, suppress_health_check=list(HealthCheck))
    @seed(case["seed"] * 1000 + case["i"])
    @given(st_.sampled_from([1, 2, 7, 50, 1000]), st_.sampled_from([0.5, 0.01, 0.001]), ops)
    def prop(cap, fp, operations):
        b = Bloom(expected_items=cap, false_positive_rate=fp)
        shadow: set[str] = set()
        for op, arg in operations:
            if op == "mark":
                b.mark_seen(arg)
                shadow.add(arg)
            elif op == "hydrate":
                b.hydrate(arg)
                shadow.update(arg)
                if not b.authoritative:
                    raise BloomContractBroken("hydrate() did not grant authority")
            elif op == "reset":
                b.reset()
                shadow.clear()
                if b.authoritative:
                    raise BloomContractBroken("reset() kept authority")
            for x in shadow:
                obs["bloom_ids_checked"] += 1
                if not b.maybe_seen(x):
                    raise BloomContractBroken(f"false negative for {x!r} (capacity {cap}, {len(shadow)} ids told)")
        keys.add(f"bloom:{cap}:{fp}:{min(len(shadow), 5)}")

    try:
        prop()
    except BloomContractBroken as e:
        violations.append(viol("C09/bloom-false-negative", str(e)))
    except Exception as e:  # hypothesis wraps
        if "BloomContractBroken" in repr(e) or "false negative" in str(e):
            violations.append(viol("C09/bloom-false-negative", str(e)[:400]))
        else:
            raise
    obs["evaluations"] += case["examples"]
    obs["contract_evaluations"] = contract_evals["post"]
    return {"violations": violations, "obs": dict(obs), "keys": sorted(keys)}


def _uniq(vs: list[dict]) -> list[dict]:
    seen = set()
    out = []
    for x in vs:
        if x["sig"] not in seen:
            seen.add(x["sig"])
            out.append(x)
    return out


def run_case(case: dict) -> dict:
    if case["kind"] == "redeliver":
        return _redeliver(case)
    if case["kind"] == "restart":
        return _restart(case)
    return _bloom(case)

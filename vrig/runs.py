"""Delivery engine runs: one workflow, one schedule, optional injected actions."""

from __future__ import annotations

import json
import random
from typing import Any

from .world import World


class Run:
    """Everything observed in one run (JSON-able pieces + the audit log)."""

    def __init__(self) -> None:
        self.state: dict = {}
        self.ledger: list[dict] = []
        self.audit: list[dict] = []
        self.commits: list[tuple] = []
        self.handled: list[dict] = []
        self.handler_calls: list[tuple] = []
        self.steps = 0
        self.quiescent = False
        self.queue_left: list[dict] = []
        self.dlq: list[dict] = []
        self.in_txn = False
        self.injected: list[dict] = []
        self.wf_id = ""
        self.budget_exhausted = False
        self.bus_log: list[dict] = []
        self.stale_copies_delivered = 0


def _inject(w: World, inj: dict, rng: random.Random, run: Run) -> None:
    do = inj["do"]
    if do == "cancel":
        w.cancel()
    elif do == "recovery":
        for _ in range(int(inj.get("times", 1))):
            w.run_recovery()
    elif do == "signal":
        w.signal(inj["ref"], inj.get("name", "go"), inj.get("data") or {"id": inj.get("id", "s1")}, bool(inj.get("persistent", True)))
    elif do in ("dup_start", "early_start"):
        from stabilize.queue.messages import StartStage

        st = w.snapshot_state()["stages"][inj["ref"]]
        w.queue.push(StartStage(execution_type="PIPELINE", execution_id=w.wf_id, stage_id=st["id"]))
    elif do == "rotate":
        from stabilize.queue.dedup import get_deduplicator

        get_deduplicator().reset()
    elif do == "reset_dedup":
        from stabilize.queue.dedup import reset_deduplicator

        reset_deduplicator()
    elif do == "new_processor":
        w.fresh_worker()
    elif do == "restart_stage":
        wf = w.store.retrieve(w.wf_id)
        st = wf.stage_by_ref_id(inj["ref"])
        w.orch.restart(wf, st.id)
    elif do == "pause":
        w.store.pause(w.wf_id, "verif")
    elif do == "unpause":
        w.orch.unpause(w.store.retrieve(w.wf_id))
    elif do == "retention":
        w.store.cleanup_old_processed_messages(max_age_hours=float(inj.get("hours", 24.0)))
        w.store.cleanup_completed_stage_claims()
    else:
        raise ValueError(do)
    run.injected.append(dict(inj, at_step=run.steps, seq=w.max_seq()))


def delivery_run(
    spec: dict,
    *,
    seed: int = 0,
    order: str = "fifo",
    noack_p: float = 0.0,
    max_redeliver: int = 2,
    events: bool = False,
    sdata: bool = False,
    injections: list[dict] | None = None,
    hold: dict | None = None,
    max_steps: int = 800,
    trust_negative: bool = False,
    dedup_items: int = 200,
    world: World | None = None,
    keep_world: bool = False,
    resubmit: bool = True,
    pre_hook=None,
    stale_p: float = 0.0,
    twins: int = 0,
) -> Run | tuple[Run, World]:
    rng = random.Random(seed)
    w = world or World(events=events, sdata=sdata, trust_negative=trust_negative, dedup_items=dedup_items)
    run = Run()
    try:
        if resubmit:
            if twins:
                w.store_only(spec, twins)
            w.submit(spec)
        if pre_hook:
            pre_hook(w)
        run.wf_id = w.wf_id
        by_step: dict[int, list[dict]] = {}
        for inj in injections or []:
            by_step.setdefault(int(inj["at"]), []).append(inj)
        withheld: dict[int, int] = {}
        stale: dict[int, int | None] = {}  # row id claimed by a stalled worker -> step at which it wakes up
        held: dict[int, int] = {}  # row id -> release step
        hold_seen = 0
        hold_done = False
        while run.steps < max_steps:
            for inj in by_step.pop(run.steps, []):
                _inject(w, inj, rng, run)
            if w.withheld and noack_p:
                for rid in list(w.withheld):
                    if rng.random() < 0.35:
                        w.lapse(rid)  # the dead worker's lock runs out while the message waits
            rows = w.rows()
            if not rows:
                if by_step and min(by_step) > run.steps:
                    # nothing pending but actions still scheduled: run the next one now
                    nxt = min(by_step)
                    for inj in by_step.pop(nxt):
                        _inject(w, inj, rng, run)
                    continue
                break
            ready = w.eligible(rows)
            if not ready:
                w.processor._check_dlq()
                if not w.eligible(w.rows()):
                    break
                continue
            # hold-back: keep one chosen message away from the worker for k steps
            if hold and not hold_done:
                for r in ready:
                    if r["type"] == hold["type"] and r["id"] not in held:
                        if hold_seen == int(hold.get("nth", 0)):
                            held[r["id"]] = run.steps + int(hold.get("steps", 5))
                            hold_done = True
                        hold_seen += 1
                        if hold_done:
                            break
            cand = [r for r in ready if held.get(r["id"], -1) <= run.steps]
            if not cand:
                # only held rows are ready: release the earliest
                rid = min(held, key=lambda k: held[k])
                held[rid] = run.steps
                cand = [r for r in ready if r["id"] == rid] or ready
            if order == "fifo":
                row = cand[0]
            elif order == "lifo":
                row = cand[-1]
            else:
                row = rng.choice(cand)
            if stale_p and row["attempts"] == 0 and row["id"] not in stale and rng.random() < stale_p:
                # a worker claims the first delivery and stalls; its lock runs out, the queue redelivers
                if w.claim_only(row["id"]) is not None:
                    stale[row["id"]] = None
                    w.lapse(row["id"])
                    run.steps += 1
                    continue
            ack = True
            if noack_p and rng.random() < noack_p:
                if withheld.get(row["id"], 0) < max_redeliver and row["attempts"] < row["max_attempts"] - 4:
                    ack = False
                    withheld[row["id"]] = withheld.get(row["id"], 0) + 1
            rec = w.deliver(row["id"], ack=ack)
            run.steps += 1
            if row["id"] in stale and rec.get("polled") and rec.get("error") is None:
                stale[row["id"]] = run.steps + rng.choice([0, 0, 1, 3, 8])
            for rid in [k for k, at in stale.items() if at is not None and at <= run.steps]:
                # the stalled worker wakes up after the redelivery was handled and committed
                del stale[rid]
                if w.deliver_stale(rid) is not None:
                    run.stale_copies_delivered += 1
        else:
            run.budget_exhausted = True
        for rid in [k for k, at in stale.items() if at is not None]:
            if w.deliver_stale(rid) is not None:
                run.stale_copies_delivered += 1
        run.queue_left = w.rows()
        run.quiescent = not run.queue_left
        run.dlq = w.dlq_rows()
        run.state = w.snapshot_state()
        run.ledger = list(w.ledger)
        run.audit = w.audit()
        run.commits = list(w.commits)
        run.handled = list(w.handled)
        run.handler_calls = list(w.handler_calls)
        run.in_txn = w.in_transaction()
        run.bus_log = list(w.bus_log)
    finally:
        if not keep_world:
            w.close()
    if keep_world:
        return run, w
    return run


def summarize(run: Run) -> dict[str, Any]:
    return {
        "wf": run.state.get("wf"),
        "stages": {k: v["status"] for k, v in run.state.get("stages", {}).items()},
        "steps": run.steps,
        "executions": len(run.ledger),
        "quiescent": run.quiescent,
    }


def dumps(x: Any) -> str:
    return json.dumps(x, sort_keys=True, default=str)

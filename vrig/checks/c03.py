"""C03 - a stage never runs before its dependencies allow it."""

from __future__ import annotations

import json
import random
from collections import Counter

from .. import oracles, specs
from ..framework import viol
from ..runs import delivery_run

ID = "C03"
LEVEL = "exploration"
RULE = (
    "case = random DAG (<=7 stages, AND / N_OF_M / DISCRIMINATOR joins, failing / failed-continue / skipped / polling "
    "stages) or OR-split/OR-join variant or library shape, x delivery schedules (random order, withheld acks) with "
    "early / late / duplicate StartStage messages injected for random stages at random steps, and operator restarts of "
    "random (usually finished) stages - on the join shapes enumerated: a restart of every upstream before every step. For every durable "
    "NOT_STARTED->RUNNING row the join predicate is evaluated on the durable upstream statuses at that row's sequence "
    "number. Non-trivial = a stage start with >=1 upstream; distinct = (join type, sorted upstream status vector, "
    "was an injected StartStage pending). The same monitor runs over whole workflows executed by 2-4 worker threads "
    "interleaved at SQL-statement granularity (random / PCT) while a further thread pushes stray StartStage messages; and over StartStage x JumpToStage handler pairs (the jump "
    "re-arms the stage being started or its upstreams) under every schedule with <= 2 preemptions (sampled)."
)
ASSUMPTIONS = ["SQLite backend", "jump targets are exempt exactly when a JumpToStage naming them re-armed them in the same commit group"]
MIN_OBS = {"starts_checked": {"quick": 2000, "thorough": 20000}, "injected_start_messages": {"quick": 500, "thorough": 5000}, "interleaved_runs": {"quick": 60, "thorough": 800}, "start_x_jump_schedules_with_switch": {"quick": 100, "thorough": 1500}, "restart_injections": {"quick": 300, "thorough": 1500}}
TIMEOUT = {"quick": 600, "thorough": 3000}


def _spec_for(i: int, seed: int) -> dict:
    rng = random.Random(seed * 104729 + i)
    m = i % 10
    if m < 5:
        sp = specs.random_dag(rng, max_stages=7)
        sp["name"] = f"rand{seed}_{i}"
        return sp
    if m < 8:
        return specs.or_split_variant(rng) if m < 7 else specs.first_of_failing(rng)
    lib = [specs.first_of(3), specs.quorum(3, 2), specs.quorum(4, 3), specs.jump_loop(2, 3), specs.jump_side_branch(2), specs.forward_jump(), specs.racing_failure(), specs.synthetic(), specs.failed_continue(), specs.two_target_jumps("a"), specs.two_target_jumps("b")]
    return lib[(i // 10 * 2 + (m - 8)) % len(lib)]


def gen_cases(tier: str, seed: int) -> list[dict]:
    n, k = (60, 15) if tier == "quick" else (400, 60)
    cases = [{"spec_i": i, "seed": seed, "nsched": k} for i in range(n)]
    for i in range(80 if tier == "quick" else 1000):
        cases.append({"kind": "race", "spec_i": i, "seed": seed})
    for sp in range(4):
        for nth in range(2):
            cases.append({"kind": "pair", "spec": sp, "nth": nth, "seed": seed, "sample": 120 if tier == "quick" else 1500})
    for i in range(16 if tier == "quick" else 120):
        cases.append({"kind": "join_starts", "i": i, "seed": seed})
    for sp in range(len(RESTART_SPECS)):
        for order in (("fifo",) if tier == "quick" else ("fifo", "random", "lifo")):
            cases.append({"kind": "restart", "spec": sp, "order": order, "seed": seed})
    return cases


def predicate(stage: dict, ups: dict[str, str | None]) -> tuple[bool, str]:
    jt = stage.get("join", "AND")
    vals = list(ups.values())
    if not vals:
        return True, "no upstream"
    cont = [v in oracles.CONTINUABLE for v in vals]
    if jt == "AND":
        return all(cont), "all upstreams continuable"
    if jt == "OR":
        act = stage.get("or_active")
        if act is None:
            return all(cont), "OR join without activation info = AND"
        return all(ups[a] in oracles.CONTINUABLE for a in act if a in ups), f"activated {act} continuable"
    if jt == "N_OF_M":
        thr = int(stage.get("thr", 0))
        if thr <= 0:
            return all(cont), "threshold<=0 = AND"
        return sum(cont) >= thr, f">= {thr} continuable"
    if jt in ("DISCRIMINATOR", "MULTI_MERGE"):
        return any(cont), ">= 1 continuable"
    return all(cont), "AND"


def start_oracle(spec: dict, run, prop: str = "C03") -> tuple[list[dict], Counter, set]:
    out = []
    obs: Counter = Counter()
    keys: set = set()
    tl = oracles.Timeline(run.audit)
    ids = oracles.stage_ids(run.audit)
    by_id = {v: k for k, v in ids.items()}
    sdefs = {s["ref"]: s for s in spec["stages"]}
    groups = oracles.Groups(run.commits)
    marks_rows = [a for a in run.audit if a["kind"] == "mark" and a["op"] == "ins" and a["b"] == "JumpToStage"]
    payloads = {a["a"]: a["d"] for a in run.audit if a["kind"] == "queue" and a["op"] == "ins"}
    jump_groups: dict[int, str] = {}
    for m in marks_rows:
        try:
            jump_groups[groups.of(m["seq"])] = json.loads(payloads.get(m["a"]) or "{}").get("target_stage_ref_id")
        except Exception:
            pass
    # StartStage messages pushed by a JumpToStage handler: their stage is "the explicit target of a jump"
    jump_pushed: set = set()
    for a in run.audit:
        if a["kind"] == "queue" and a["op"] == "ins" and a["c"] == "StartStage":
            t_ = groups.tag(groups.of(a["seq"]))
            if t_ and t_[0] == "JumpToStage":
                jump_pushed.add(str(a["a"]))
    last_rearm: dict[str, int] = {}
    inj_seqs = [i["seq"] for i in run.injected if i["do"] in ("early_start", "dup_start")]
    # a stage named as the target of an applied jump is "the explicit target of a jump" until it next starts,
    # whichever StartStage message gets there first (the bypass flag lives in the stage row, not in the message)
    jump_mark_target = {m["seq"]: jump_groups.get(groups.of(m["seq"])) for m in marks_rows}
    pending_target: set = set()
    for a in run.audit:
        if a["seq"] in jump_mark_target and jump_mark_target[a["seq"]]:
            pending_target.add(jump_mark_target[a["seq"]])
        if a["kind"] != "status" or a["op"] != "stage":
            continue
        sid = a["a"]
        ref = by_id.get(sid)
        if a["d"] == "NOT_STARTED":
            last_rearm[sid] = a["seq"]
            continue
        if not (a["c"] == "NOT_STARTED" and a["d"] == "RUNNING") or ref not in sdefs:
            continue
        sd = sdefs[ref]
        q = a["seq"]
        if sid in last_rearm:
            g = groups.of(last_rearm[sid])
            if jump_groups.get(g) == ref:
                obs["jump_target_starts"] += 1
                pending_target.discard(ref)
                continue
        tag_here = groups.tag(groups.of(q))
        if tag_here and tag_here[0] == "StartStage" and str(tag_here[1]) in jump_pushed:
            obs["jump_target_starts"] += 1
            pending_target.discard(ref)
            continue
        if ref in pending_target:
            pending_target.discard(ref)
            obs["jump_target_starts"] += 1
            continue
        ups = {u: tl.at(ids[u], q) for u in sd.get("req") or [] if u in ids}
        ok, why = predicate(sd, ups)
        obs["starts_checked"] += 1
        if ups:
            keys.add(f"{sd.get('join', 'AND')}:{','.join(sorted(str(v) for v in ups.values()))}:{int(any(s <= q for s in inj_seqs))}")
        if not ok:
            out.append(viol(f"{prop}/started-before-join-satisfied:{sd.get('join', 'AND')}", f"stage {ref} started at seq {q} with upstreams {ups}; needs {why}", spec=spec["name"]))
    # no task of a stage runs while the stage is not durably RUNNING
    for r in run.ledger:
        if "<" in r["ref"]:
            continue
        stt = tl.at(r["stage_id"], r["seq"])
        obs["executions_checked"] += 1
        if stt != "RUNNING":
            out.append(viol(f"{prop}/task-ran-in-unstarted-stage", f"{r['ref']}.t{r['task']} executed while stage durably {stt}", spec=spec["name"]))
    return out, obs, keys


def _race(case: dict) -> dict:
    """The same predicate monitor over runs by 2-4 worker threads interleaved at SQL-statement
    granularity, while a further thread pushes stray StartStage messages for random stages."""
    from stabilize.queue.messages import StartStage

    from .. import interleave as il

    spec = _spec_for(case["spec_i"], case["seed"])
    rng = random.Random(case["seed"] * 7331 + case["spec_i"])
    refs = [s["ref"] for s in spec["stages"]]
    pushed = []

    def injector(w, sched, stop):
        for _ in range(rng.randint(1, 5)):
            il.idle_points(sched, rng.randrange(0, 120), stop)
            st = w.snapshot_state()["stages"].get(rng.choice(refs))
            if st:
                w.queue.push(StartStage(execution_type="PIPELINE", execution_id=w.wf_id, stage_id=st["id"]))
                pushed.append(w.max_seq())

    run, info = il.race_run(spec, rng, injector=injector)
    obs: Counter = Counter({"evaluations": 1})
    if run is None:
        obs["scheduler_failed"] += 1
        return {"violations": [], "obs": dict(obs), "keys": [], "inconclusive": info.get("failed")}
    run.injected = [{"do": "early_start", "seq": q} for q in pushed]
    obs["interleaved_runs"] += 1
    obs["injected_start_messages"] += len(pushed)
    obs["interleaved_switches"] += info["switches"]
    v, o, k = start_oracle(spec, run)
    obs.update(o)
    for x in v:
        x.update(interleaved=True, trace_hash=info["trace_hash"])
    return {"violations": v[:10], "obs": dict(obs), "keys": sorted("race:" + x for x in k)}


RESTART_SPECS = [lambda: specs.quorum(3, 2), lambda: specs.quorum(4, 3), lambda: specs.first_of(3), lambda: specs.diamond(), lambda: specs.first_of_failing(random.Random(5)), lambda: specs.or_split()]


def _restart(case: dict) -> dict:
    """Operator restart of an upstream of a join, enumerated: before EVERY delivery step of the reference
    run, for EVERY stage that has a downstream - a restarted upstream is RUNNING again and must not count
    towards a join that has not fired yet."""
    spec = RESTART_SPECS[case["spec"]]()
    rng = random.Random(case["seed"] * 131 + case["spec"])
    ref = delivery_run(spec)
    ups = sorted({u for s_ in spec["stages"] for u in (s_.get("req") or [])})
    obs: Counter = Counter()
    keys: set = set()
    violations = []
    for step in range(1, ref.steps + 1):
        for u in ups:
            run = delivery_run(spec, seed=rng.randrange(1 << 30), order=case["order"], injections=[{"at": step, "do": "restart_stage", "ref": u}], max_steps=ref.steps * 6 + 150)
            obs["evaluations"] += 1
            obs["restart_injections"] += 1
            v, o, k = start_oracle(spec, run)
            v = oracles.attribute(v, run, "C03")
            obs.update(o)
            keys |= {"restart:" + x for x in k}
            for x in v:
                x.update(restart_of=u, before_step=step, order=case["order"])
            violations += v
    seen_s = set()
    uniq = []
    for x in violations:
        if x["sig"] not in seen_s:
            seen_s.add(x["sig"])
            uniq.append(x)
    return {"violations": uniq, "obs": dict(obs), "keys": sorted(keys)}


PAIR_SPECS = [lambda: specs.jump_from_sibling(1), lambda: specs.jump_from_sibling(2), lambda: specs.jump_side_branch(1), lambda: specs.jump_fanin_off_body(1)]


def _pair(case: dict) -> dict:
    """A StartStage handler and a JumpToStage handler (whose re-arm set contains that stage or its
    upstreams) as the two designated invocations, every schedule with <= 2 preemptions (sampled): the
    stage may be started on a view of its upstreams that the jump invalidates in between."""
    import os

    from .. import interleave as il
    from ..world import World

    spec = PAIR_SPECS[case["spec"]]()
    w = World()
    cut = None
    try:
        w.submit(spec)
        seen = 0
        for _ in range(300):
            rows = w.rows()
            if not rows:
                break
            jumps = [r for r in rows if r["type"] == "JumpToStage"]
            starts = [r for r in rows if r["type"] == "StartStage"]
            if jumps and starts:
                if seen == case["nth"]:
                    path = os.path.join(il.env.scratch_dir(), f"cut-{os.getpid()}-{random.randrange(1 << 40)}.db")
                    w.store._get_connection().commit()
                    w.copy_db(path)
                    cut = (path, [starts[0]["id"], jumps[0]["id"]])
                    break
                seen += 1
            ready = [r for r in w.eligible(rows) if r["type"] != "JumpToStage"] or w.eligible(rows)
            if not ready:
                break
            # keep StartStage messages pending as long as something else can move
            other = [r for r in ready if r["type"] != "StartStage"]
            w.deliver((other or ready)[0]["id"])
    finally:
        w.close()
    obs: Counter = Counter()
    keys: set = set()
    violations = []
    if cut is None:
        return {"violations": [], "obs": {"cut_point_not_reached": 1}, "keys": []}
    db, rows = cut
    try:
        na, nb = il.solo_length(db, rows[0]), il.solo_length(db, rows[1])
        rng = random.Random(case["seed"] * 61 + case["spec"] * 7 + case["nth"])
        for sc in il.bound_schedules(na, nb, 2, sample=case["sample"], rng=rng):
            run, info = il.run_pair(db, rows, il.Segments(sc), max_steps=300)
            obs["evaluations"] += 1
            if run is None:
                obs["scheduler_watchdog"] += 1
                continue
            run.injected = []
            if info["switches"]:
                obs["start_x_jump_schedules_with_switch"] += 1
                keys.add(f"pair:{spec['name']}:{info['trace_hash']}")
            v, o, _ = start_oracle(spec, run)
            v = oracles.attribute(v, run, "C03")
            obs.update(o)
            for x in v:
                x.update(pair="StartStage x JumpToStage", schedule=sc)
            violations += v
    finally:
        os.unlink(db)
    seen_s = set()
    uniq = []
    for x in violations:
        if x["sig"] not in seen_s:
            seen_s.add(x["sig"])
            uniq.append(x)
    return {"violations": uniq, "obs": dict(obs), "keys": sorted(keys)}


def _join_starts(case: dict) -> dict:
    """Systematic: a stray StartStage for the early-firing join before EVERY step of the run (FIFO and one shuffled
    order), over first-of / quorum joins whose upstreams succeed, fail terminally, fail-and-continue or poll."""
    rng = random.Random(case["seed"] * 911 + case["i"])
    spec = specs.first_of_failing(rng)
    obs: Counter = Counter()
    keys: set = set()
    violations = []
    ref = delivery_run(spec)
    for k in range(ref.steps + 2):
        for order in ("fifo", "random"):
            run = delivery_run(spec, seed=rng.randrange(1 << 30), order=order, injections=[{"at": k, "do": "early_start", "ref": "j"}], max_steps=ref.steps * 5 + 100)
            obs["evaluations"] += 1
            obs["join_start_injections"] += 1
            v, o, kk = start_oracle(spec, run)
            v = oracles.attribute(v, run, "C03")
            obs.update(o)
            keys |= kk
            for x in v:
                x.update(stray_start_before_step=k, order=order)
            violations += v
    seen = set()
    uniq = []
    for x in violations:
        if x["sig"] not in seen:
            seen.add(x["sig"])
            uniq.append(x)
    return {"violations": uniq, "obs": dict(obs), "keys": sorted(keys)}


def run_case(case: dict) -> dict:
    if case.get("kind") == "join_starts":
        return _join_starts(case)
    if case.get("kind") == "race":
        return _race(case)
    if case.get("kind") == "pair":
        return _pair(case)
    if case.get("kind") == "restart":
        return _restart(case)
    spec = _spec_for(case["spec_i"], case["seed"])
    rng = random.Random(case["seed"] * 31 + case["spec_i"])
    obs: Counter = Counter()
    keys: set = set()
    violations = []
    ref = delivery_run(spec)
    budget = ref.steps * 6 + 150
    refs = [s["ref"] for s in spec["stages"]]
    sample = None
    for j in range(case["nsched"]):
        inj = []
        for _ in range(rng.randint(1, 4)):
            inj.append({"at": rng.randrange(0, max(2, ref.steps + 5)), "do": "early_start", "ref": rng.choice(refs)})
        if j % 3 == 2:
            # operator restart of a (probably finished) stage while its siblings / downstream joins are still
            # deciding: a restarted upstream is no longer "finished" for any join that has not fired yet
            inj.append({"at": rng.randrange(2, max(3, ref.steps)), "do": "restart_stage", "ref": rng.choice(refs)})
            obs["restart_injections"] += 1
        # every fourth schedule: the store also holds other executions of the same template (same references)
        twins = rng.choice([1, 2]) if j % 4 == 1 else 0
        run = delivery_run(spec, seed=rng.randrange(1 << 30), order=rng.choice(["random", "random", "lifo", "fifo"]), noack_p=rng.choice([0.0, 0.15, 0.3]), injections=inj, max_steps=budget, twins=twins)
        obs["evaluations"] += 1
        if twins:
            obs["runs_next_to_twin_executions"] += 1
        obs["injected_start_messages"] += len(run.injected)
        if run.budget_exhausted:
            obs["budget_exhausted"] += 1
        v, o, k = start_oracle(spec, run)
        v = oracles.attribute(v, run, "C03")
        obs.update(o)
        keys |= k
        for x in v:
            x["case_schedule"] = j
        violations += v
        if sample is None and run.injected:
            sample = {"spec": spec["name"], "stages": {s["ref"]: [s.get("join", "AND"), s.get("req")] for s in spec["stages"]}, "injected": run.injected[:4], "final": {k2: v2["status"] for k2, v2 in run.state["stages"].items()}}
    return {"violations": violations[:10], "obs": dict(obs), "keys": sorted(keys), "sample": sample}

#!/bin/bash
# run every check of a tier sequentially; evidence/replays to a scratch directory unless KEEP=1
tier=${1:-quick}; shift
checks=${@:-C01 C02 C03 C04 C05 C06 C07 C08 C09 C10 C11 C12 C13 C14 C15 C16 C17 C18 C19 C20}
cd "$(dirname "$0")/.."
if [ -z "$KEEP" ]; then export VERIF_EVIDENCE_DIR=${VERIF_EVIDENCE_DIR:-/dev/shm/ev-all-$$} VERIF_REPLAY_DIR=${VERIF_REPLAY_DIR:-/dev/shm/rp-all-$$}; fi
for c in $checks; do
  s=$(date +%s)
  ./vcheck $c --tier $tier 2>&1 | grep -E "^(C[0-9]+ (quick|thorough)|VIOLATION|INCONCLUSIVE|  C[0-9]+/|  harness|  worker)" | cut -c1-400
  echo "   rc=${PIPESTATUS[0]} $(( $(date +%s) - s ))s"
done

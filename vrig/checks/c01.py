"""C01 - crash anywhere, restart with recovery: same outcome as an uninterrupted run."""

from __future__ import annotations

import random
from collections import Counter

from .. import crash, oracles, specs
from ..framework import viol
from ..runs import summarize

ID = "C01"
LEVEL = "fault_enumeration"
RULE = (
    "case = (workflow from the confluent family: chain, diamond with predefined / builder-built tasks, several tasks per "
    "stage, terminal failure, continue-on-failure, polling, transient retry with context_update, backward jump loops, "
    "forward jump, DISCRIMINATOR and N_OF_M joins, synthetic before/after stages, OR-split, skipped stage, random "
    "confluent DAGs) x (FIFO and shuffled delivery schedule). EVERY durable commit of the run (after submission) is a "
    "crash point: its database snapshot is resumed as a fresh worker (all in-memory state reset, locks lapsed, recovery "
    "sweep, drain) and compared with the uninterrupted run: statuses, ancestor-derived context of every post-restart "
    "execution, execution counts (surplus <= 1 and only for the step in flight), empty queue / DLQ, nothing RUNNING. "
    "thorough adds every pair of successive crashes (second crash at every commit of the resumed run, recovery sweep "
    "included) on the small workflows and a real os._exit(137) cross-check. Non-trivial = crash point inside a handler "
    "(between the poll commit and the ack commit of a message); distinct = (spec, handler type in flight, ordinal of "
    "the commit within that handler). Plus crashes of a process running SEVERAL worker threads: the uninterrupted run "
    "is executed by 2-3 threads interleaved at SQL-statement granularity, every commit yields a snapshot with several "
    "handlers in flight, sampled snapshots are resumed and compared with the sequential reference (surplus executions <= "
    "number of threads)."
)
ASSUMPTIONS = [
    "SQLite backend, store+queue in one file; process-kill crash model (SQLite atomic commit trusted, no torn pages)",
    "crash points start after the submitting client's StartWorkflow push is durable (the property is about a running workflow)",
    "in-process fresh-worker emulation, cross-checked against real os._exit kills",
]
MIN_OBS = {"crash_points_resumed": {"quick": 1500, "thorough": 20000}, "in_handler_crash_points": {"quick": 800, "thorough": 10000}, "multi_worker_crash_points": {"quick": 150, "thorough": 3000}}
TIMEOUT = {"quick": 800, "thorough": 3400}


def _spec_for(i: int, seed: int) -> dict:
    fam = specs.CONFLUENT_FAMILY
    if i < len(fam):
        return fam[i]()
    rng = random.Random(seed * 2749 + i)
    for _ in range(50):
        sp = specs.random_dag(rng, max_stages=6)
        if sp["confluent"]:
            sp["name"] = f"rand{seed}_{i}"
            return sp
    return specs.diamond()


def gen_cases(tier: str, seed: int) -> list[dict]:
    cases = []
    if tier == "quick":
        n = len(specs.CONFLUENT_FAMILY)
        for i in range(n):
            cases.append({"spec_i": i, "order": "fifo", "seed": seed, "mode": "single"})
        for i in range(0, n, 3):
            cases.append({"spec_i": i, "order": "random", "seed": seed, "mode": "single"})
        for i in range(0, n, 2):
            cases.append({"spec_i": i, "order": "mw", "seed": seed, "mode": "mw", "sample": 30})
    else:
        n = 60
        for i in range(n):
            for order in ("fifo", "random", "random2"):
                cases.append({"spec_i": i, "order": order, "seed": seed, "mode": "single"})
        for i in (0, 1, 3, 4, 6, 7, 10, 12, 13, 15):
            cases.append({"spec_i": i, "order": "fifo", "seed": seed, "mode": "pairs"})
        for i in range(0, 18):
            cases.append({"spec_i": i, "order": "fifo", "seed": seed, "mode": "realkill"})
        for i in range(n):
            for rep_ in range(2):
                cases.append({"spec_i": i, "order": "mw", "seed": seed * 2 + rep_, "mode": "mw", "sample": 60})
    return cases


def _claim_plan_window(ref, snaps, k: int) -> str | None:
    """Is crash k inside the window between the StartStage *claim* commit and the *plan*
    commit (the one carrying the StartStage processed mark) of one handler invocation?
    Returns the claimed stage id."""
    tag = snaps.tags[k]
    if not tag or tag[0] != "StartStage":
        return None
    claimed = None
    kk = k
    while kk >= 0 and snaps.tags[kk] == tag:
        lo = snaps.max_seq[kk - 1] if kk > 0 else 0
        hi = snaps.max_seq[kk]
        rows = [a for a in ref.audit if lo < a["seq"] <= hi]
        if any(a["kind"] == "mark" for a in rows):
            return None  # the plan commit is already durable at k
        c = [a for a in rows if a["kind"] == "status" and a["op"] == "stage" and a["c"] == "NOT_STARTED" and a["d"] == "RUNNING"]
        if c:
            claimed = c[0]["a"]
        kk -= 1
    return claimed


def compare(spec: dict, ref, snaps, k: int, run, pre_n: int, allowance: int = 1, prop: str = "C01") -> list[dict]:
    out = []
    if run.budget_exhausted:
        return [viol(f"{prop}/INCONCLUSIVE-budget", "budget exhausted")]
    a, b = summarize(ref), summarize(run)
    if a["wf"] != b["wf"] or a["stages"] != b["stages"]:
        diff = {s: (a["stages"].get(s), b["stages"].get(s)) for s in set(a["stages"]) | set(b["stages"]) if a["stages"].get(s) != b["stages"].get(s)}
        out.append(viol(f"{prop}/outcome-differs", f"uninterrupted {a['wf']} vs after crash {b['wf']}; stages (uninterrupted, crashed) {diff}"))
    # (b) upstream data of post-restart executions
    early = specs.early_join_refs(spec)
    okeys = oracles.output_keys(spec)

    def keyset(ref_: str) -> set:
        ks: set = set()
        for anc in specs.ancestors(spec, ref_):
            ks |= okeys.get(anc, set())
        return ks

    refviews: dict = {}
    for r in ref.ledger:
        if r["ref"] in early or "<" in r["ref"]:
            continue
        refviews.setdefault((r["ref"], r["task"], r["iter"]), []).append(oracles.anc_view(r["ctx"], keyset(r["ref"])))
    for r in run.ledger[pre_n:]:
        key = (r["ref"], r["task"], r["iter"])
        if key not in refviews:
            continue
        v = oracles.anc_view(r["ctx"], keyset(r["ref"]))
        if v not in refviews[key]:
            missing = sorted(set(refviews[key][0]) - set(v))
            out.append(viol(f"{prop}/upstream-data-differs" + (":missing-ancestor-keys" if missing else ""), f"{key} after restart saw {v}, uninterrupted saw {refviews[key][0]}"))
            break
    # (c) execution counts
    rc, tc = oracles.exec_counts(ref.ledger), oracles.exec_counts(run.ledger)
    missing = {str(x): (rc[x], tc.get(x, 0)) for x in rc if tc.get(x, 0) < rc[x]}
    if missing:
        out.append(viol(f"{prop}/execution-missing", f"(ref,task,iter)->(uninterrupted,crashed): {missing}"))
    surplus = {x: tc[x] - rc.get(x, 0) for x in tc if tc[x] > rc.get(x, 0)}
    if sum(surplus.values()) > allowance:
        out.append(viol(f"{prop}/more-than-the-step-in-flight-repeated", f"surplus executions {dict((str(x), n) for x, n in surplus.items())}"))
    elif surplus:
        tagk = snaps.tags[k] if k < len(snaps.tags) else None
        inflight = {(r["ref"], r["task"], r["iter"]) for r in run.ledger[:pre_n] if r["commit"] == k + 1 or (tagk and r.get("msg") == tagk[1])}
        bad = [x for x in surplus if x not in inflight]
        if bad and allowance == 1:
            out.append(viol(f"{prop}/repeated-step-was-not-in-flight", f"{[str(x) for x in bad]} executed again; in flight at the crash: {[str(x) for x in inflight]}"))
    # (d) nothing stranded
    if run.queue_left:
        out.append(viol(f"{prop}/queue-not-drained", f"{[(q['type'], q['attempts']) for q in run.queue_left][:4]}"))
    if run.dlq:
        out.append(viol(f"{prop}/message-in-dlq", f"{[(d['type'], str(d['error'])[:80]) for d in run.dlq][:3]}"))
    running = [s for s, st in b["stages"].items() if st == "RUNNING"]
    if running:
        out.append(viol(f"{prop}/stage-left-running", f"{running}"))
    return out


def classify(violations: list[dict], ref, snaps, k: int, spec: dict, run, prop: str = "C01") -> list[dict]:
    if not violations:
        return violations
    sid = _claim_plan_window(ref, snaps, k)
    if sid is not None:
        ids = {v: kk for kk, v in oracles.stage_ids(ref.audit).items()}
        ref_name = ids.get(sid)
        sdef = next((s for s in spec["stages"] if s["ref"] == ref_name), None)
        sigs = " ".join(v["sig"] for v in violations)
        if sdef is not None:
            detail = f"crash after commit {k} (inside StartStage of {ref_name}, after its claim, before its plan commit); " + "; ".join(v["msg"] for v in violations)[:500]
            if sdef.get("type", "v") == "v" and "upstream-data" in sigs:
                return [viol(f"{prop}/crash-between-stage-claim-and-plan:predefined-tasks-run-without-ancestor-outputs", detail)]
            if sdef.get("type") == "vs" and "execution-missing" in sigs:
                return [viol(f"{prop}/crash-between-stage-claim-and-plan:tasks-never-built-stage-completes-without-running-them", detail)]
    w = oracles.recovery_started_parent_before_children(run)
    if w:
        return [viol(f"{prop}/recovery-starts-parent-tasks-before-its-before-stages-finished", f"crash after commit {k}: {w}; symptoms {[v['sig'] for v in violations][:5]}")]
    return oracles.attribute(violations, run, prop)


class _Snaps:
    tags: list = []


def _mw(case: dict) -> dict:
    """Crash of a process that runs SEVERAL worker threads: the uninterrupted run is executed by 2-3
    threads interleaved at SQL-statement granularity, a database snapshot is taken at every commit (several
    handlers are in flight at that moment), sampled snapshots are resumed as a fresh single worker and
    compared with the sequential exactly-once reference (surplus executions <= number of worker threads)."""
    import os
    import shutil

    from .. import env
    from .. import interleave as il
    from ..runs import delivery_run

    spec = _spec_for(case["spec_i"], case["seed"])
    rng = random.Random(case["seed"] * 8191 + case["spec_i"])
    ref = delivery_run(spec)
    obs: Counter = Counter()
    keys: set = set()
    violations: list[dict] = []
    if not ref.quiescent:
        return {"violations": [], "obs": {"reference_not_quiescent": 1}, "keys": []}
    nworkers = rng.choice([2, 3])
    d = os.path.join(env.scratch_dir(), f"mwsnap-{os.getpid()}-{rng.randrange(1 << 30)}")
    os.makedirs(d, exist_ok=True)
    meta: list[dict] = []

    def with_sched(sched, w):
        def listener(world, idx, conn):
            path = os.path.join(d, f"{len(meta)}.db")
            shutil.copyfile(world.path, path)
            meta.append({"path": path, "max_seq": world.commits[idx][2], "ledger_len": len(world.ledger), "tag": world.commits[idx][3], "thread": world.commits[idx][1]})

        w.commit_listeners.append(listener)
        return None

    pol = il.RandomPolicy(rng.randrange(1 << 30), switch_p=rng.choice([0.2, 0.4])) if case["spec_i"] % 2 else il.PCT(rng.randrange(1 << 30), d=3, horizon=600)
    try:
        run0, info = il.run_workers(spec, nworkers, pol, with_sched=with_sched, watchdog=120.0)
        if run0 is None:
            return {"violations": [], "obs": {"scheduler_failed": 1}, "keys": [], "inconclusive": info.get("failed")}
        a0, b0 = summarize(ref), summarize(run0)
        if a0["wf"] != b0["wf"] or a0["stages"] != b0["stages"]:
            obs["uninterrupted_interleaved_run_differs_from_reference"] += 1  # judged by C02 / C04, not here
            return {"violations": [], "obs": dict(obs), "keys": []}
        groups = oracles.Groups(run0.commits)
        id2ref = {v["id"]: k for k, v in run0.state.get("stages", {}).items()}
        mark_seq = {str(a["a"]): a["seq"] for a in run0.audit if a["kind"] == "mark" and a["op"] == "ins"}
        claims = []
        for a in run0.audit:
            tag = groups.tag(groups.of(a["seq"]))
            if a["kind"] == "status" and a["op"] == "stage" and a["c"] == "NOT_STARTED" and a["d"] == "RUNNING" and tag and tag[0] == "StartStage":
                claims.append((a["seq"], mark_seq.get(str(tag[1]), 1 << 60), a["a"]))
        ks = [k for k in range(len(meta) - 1) if meta[k]["thread"] != "MainThread"]
        if len(ks) > case["sample"]:
            ks = sorted(rng.sample(ks, case["sample"]))
        budget = ref.steps * 4 + 80
        for k in ks:
            seq_k = meta[k]["max_seq"]
            pre = [dict(r) for r in run0.ledger[: meta[k + 1]["ledger_len"]]]
            run, _ = crash.resume(meta[k]["path"], pre, max_steps=budget)
            obs["evaluations"] += 1
            obs["crash_points_resumed"] += 1
            obs["multi_worker_crash_points"] += 1
            in_flight = {str(a["a"]) for a in run0.audit if a["kind"] == "queue" and a["op"] == "ins" and a["seq"] <= seq_k} - {str(a["a"]) for a in run0.audit if a["kind"] == "queue" and a["op"] == "del" and a["seq"] <= seq_k}
            if meta[k]["tag"]:
                obs["in_handler_crash_points"] += 1
                keys.add(f"mw:{spec['name']}:{meta[k]['tag'][0]}:{nworkers}")
            v = compare(spec, ref, _Snaps(), k, run, len(pre), allowance=nworkers)
            if any("INCONCLUSIVE" in x["sig"] for x in v):
                obs["budget_exhausted"] += 1
                continue
            if v:
                open_claims = [sid for (cseq, mseq, sid) in claims if cseq <= seq_k < mseq]
                sigs = " ".join(x["sig"] for x in v)
                done = False
                for sid in open_claims:
                    sdef = next((s_ for s_ in spec["stages"] if s_["ref"] == id2ref.get(sid)), None)
                    if sdef is None:
                        continue
                    detail = f"multi-worker crash after commit {k} (StartStage of {id2ref.get(sid)} between its claim and its plan commit); " + "; ".join(x["msg"] for x in v)[:400]
                    if sdef.get("type", "v") == "v" and "upstream-data" in sigs:
                        v = [viol("C01/crash-between-stage-claim-and-plan:predefined-tasks-run-without-ancestor-outputs", detail)]
                        done = True
                    elif sdef.get("type") == "vs" and "execution-missing" in sigs:
                        v = [viol("C01/crash-between-stage-claim-and-plan:tasks-never-built-stage-completes-without-running-them", detail)]
                        done = True
                    if done:
                        break
                if not done:
                    w_ = oracles.recovery_started_parent_before_children(run)
                    v = [viol("C01/recovery-starts-parent-tasks-before-its-before-stages-finished", f"multi-worker crash after commit {k}: {w_}; symptoms {[x['sig'] for x in v][:5]}")] if w_ else oracles.attribute(v, run, "C01")
            for x in v:
                x.update(spec=spec["name"], k=k, workers=nworkers, in_flight_rows=len(in_flight))
            violations += v
    finally:
        shutil.rmtree(d, ignore_errors=True)
    seen = set()
    uniq = []
    for x in violations:
        if x["sig"] not in seen:
            seen.add(x["sig"])
            uniq.append(x)
    return {"violations": uniq, "obs": dict(obs), "keys": sorted(keys)}


def run_case(case: dict) -> dict:
    if case.get("mode") == "mw":
        return _mw(case)
    spec = _spec_for(case["spec_i"], case["seed"])
    order = "fifo" if case["order"] == "fifo" else "random"
    seed = case["seed"] * 11 + (2 if case["order"] == "random2" else 1)
    events = case["spec_i"] % 3 == 1  # a third of the runs with event sourcing in the same database
    ref, snaps = crash.reference_with_snapshots(spec, seed=seed, order=order, events=events)
    obs: Counter = Counter()
    keys: set = set()
    violations: list[dict] = []
    sample = None
    try:
        if not ref.quiescent:
            return {"violations": [], "obs": {"reference_not_quiescent": 1}, "keys": []}
        budget = ref.steps * 4 + 50
        # ordinal of each commit within its handler invocation
        ordinal = []
        last_step, n = None, 0
        for k in range(snaps.count):
            st = snaps.step_of[k]
            n = n + 1 if st == last_step else 0
            last_step = st
            ordinal.append(n)
        ks = list(range(1, snaps.count))
        if case["mode"] == "realkill":
            ks = ks[:: max(1, len(ks) // 12)]
        for k in ks:
            pre = crash.pre_ledger(ref, snaps, k)
            tag = snaps.tags[k]
            if case["mode"] == "realkill":
                res = crash.real_kill(spec, k, seed=seed, order=order)
                obs["real_kills"] += 1
                if res is None or res.get("error"):
                    obs["real_kill_errors"] += 1
                    continue
                run, _ = crash.resume(snaps.path(k), pre, max_steps=budget)
                emu = summarize(run)
                real = res.get("summary") or {}
                if real.get("wf") != emu["wf"] or real.get("stages") != emu["stages"]:
                    violations.append(viol("C01/INCONCLUSIVE-emulation-disagrees-with-real-kill", f"k={k}: emulated {emu['wf']} {emu['stages']} vs real {real.get('wf')} {real.get('stages')}"))
                obs["real_kill_agreements"] += 1
                obs["evaluations"] += 1
                continue
            if case["mode"] == "pairs":
                import os

                from .. import env

                d2 = os.path.join(env.scratch_dir(), f"snap2-{os.getpid()}-{k}")
                run, snaps2 = crash.resume(snaps.path(k), pre, max_steps=budget, snapshot_dir=d2)
                try:
                    for k2 in range(0, snaps2.count):
                        pre2 = [dict(r) for r in run.ledger[: (snaps2.ledger_len[k2 + 1] if k2 + 1 < len(snaps2.ledger_len) else len(run.ledger))]]
                        run2, _ = crash.resume(snaps2.path(k2), pre2, max_steps=budget)
                        obs["evaluations"] += 1
                        obs["crash_pairs_resumed"] += 1
                        obs["crash_points_resumed"] += 1
                        if snaps2.tags[k2] and snaps2.tags[k2][0] == "Recovery":
                            obs["second_crash_during_recovery"] += 1
                        v = compare(spec, ref, snaps, k, run2, len(pre2), allowance=2)
                        v = [x for x in v if "INCONCLUSIVE" not in x["sig"]]
                        if v:
                            # the SECOND crash may itself sit in a claim/plan window of the resumed run
                            sid2 = None
                            try:
                                sid2 = _claim_plan_window(run, snaps2, k2)
                            except Exception:
                                pass
                            sigs = " ".join(x["sig"] for x in v)
                            if sid2 is not None and ("upstream-data" in sigs or "execution-missing" in sigs):
                                id2ref = {vv["id"]: kk for kk, vv in run.state.get("stages", {}).items()}
                                sdef2 = next((s_ for s_ in spec["stages"] if s_["ref"] == id2ref.get(sid2)), None)
                                variant = "tasks-never-built-stage-completes-without-running-them" if (sdef2 or {}).get("type") == "vs" and "execution-missing" in sigs else "predefined-tasks-run-without-ancestor-outputs"
                                if (sdef2 or {}).get("type", "v") in ("v", "vs"):
                                    v = [viol(f"C01/crash-between-stage-claim-and-plan:{variant}", f"second crash after resumed commit {k2} (inside StartStage of {id2ref.get(sid2)}); " + "; ".join(x["msg"] for x in v)[:400])]
                                else:
                                    v = classify(v, ref, snaps, k, spec, run2)
                            else:
                                v = classify(v, ref, snaps, k, spec, run2)
                        for x in v:
                            x.update(spec=spec["name"], k=k, k2=k2)
                        violations += v
                        keys.add(f"{spec['name']}:{tag[0] if tag else None}:{ordinal[k]}:{snaps2.tags[k2][0] if snaps2.tags[k2] else None}")
                finally:
                    snaps2.cleanup()
                continue
            run, _ = crash.resume(snaps.path(k), pre, max_steps=budget, events=events)
            obs["evaluations"] += 1
            obs["crash_points_resumed"] += 1
            obs["with_event_sourcing"] += int(events)
            if tag:
                obs["in_handler_crash_points"] += 1
                keys.add(f"{spec['name']}:{tag[0]}:{ordinal[k]}")
            v = compare(spec, ref, snaps, k, run, len(pre))
            if any("INCONCLUSIVE" in x["sig"] for x in v):
                obs["budget_exhausted"] += 1
                continue
            v = classify(v, ref, snaps, k, spec, run)
            for x in v:
                x.update(spec=spec["name"], k=k, in_flight=str(tag))
            violations += v
            if sample is None and tag and tag[0] == "CompleteStage":
                sample = {"spec": spec["name"], "crash_after_commit": k, "of": snaps.count, "handler_in_flight": tag[0], "resumed": summarize(run), "reference": summarize(ref)}
    finally:
        snaps.cleanup()
    seen = set()
    uniq = []
    for x in violations:
        if x["sig"] not in seen:
            seen.add(x["sig"])
            uniq.append(x)
    return {"violations": uniq, "obs": dict(obs), "keys": sorted(keys), "sample": sample}

#!/venv/bin/python
"""Apply a seeded change (seeded/<id>/patch.diff or /tmp/seeds/<id>/patch.diff) to /repo's
working tree, run the given checks (default: the seed's property) in the given tier,
and undo it.  Usage: tools/seedtest.py <seed-id> [C01,C02,...] [quick|thorough]"""
import json
import os
import subprocess
import sys
import tempfile
import time

HERE = os.path.dirname(os.path.dirname(os.path.abspath(__file__)))


def main():
    sid = sys.argv[1]
    d = os.path.join(HERE, "seeded", sid)
    if not os.path.exists(os.path.join(d, "patch.diff")):
        d = os.path.join("/tmp/seeds", sid)
    patch = os.path.join(d, "patch.diff")
    if os.path.exists(os.path.join(d, "patch_ported.diff")):
        patch = os.path.join(d, "patch_ported.diff")  # /tmp/seeds/<id>: re-applied by hand on the current HEAD
    meta = json.load(open(os.path.join(d, "meta.json"))) if os.path.exists(os.path.join(d, "meta.json")) else {}
    checks = sys.argv[2].split(",") if len(sys.argv) > 2 else [meta.get("property", sid[:3])]
    tier = sys.argv[3] if len(sys.argv) > 3 else "quick"
    scratch = tempfile.mkdtemp(prefix="seed-", dir="/dev/shm")
    env = dict(os.environ, VERIF_EVIDENCE_DIR=os.path.join(scratch, "ev"), VERIF_REPLAY_DIR=os.path.join(scratch, "rp"))
    target = "/repo"
    if os.environ.get("SEEDTEST_WORKTREE"):
        # do not disturb /repo (a background run may be using it): apply the change in a scratch
        # worktree of /repo's HEAD and point the checks at it (VERIF_REPO)
        target = os.path.join(scratch, "repo")
        subprocess.run(["git", "-C", "/repo", "worktree", "add", "-q", "--detach", target, "HEAD"], check=True)
        env["VERIF_REPO"] = target
    elif subprocess.run(["git", "-C", "/repo", "status", "--porcelain"], capture_output=True, text=True).stdout.strip():
        print("refusing: /repo dirty")
        return 2
    r = subprocess.run(["git", "-C", target, "apply", patch], capture_output=True, text=True)
    if r.returncode != 0:
        print("patch does not apply:", r.stderr)
        return 2
    out = {}
    try:
        for c in checks:
            t = time.time()
            p = subprocess.run([os.path.join(HERE, "vcheck"), c, "--tier", tier], capture_output=True, text=True, env=env, cwd=HERE)
            sigs = [l.strip()[:230] for l in p.stdout.splitlines() if l.startswith("  C")]
            out[c] = {"rc": p.returncode, "violations": sigs[:6], "wall": round(time.time() - t, 1)}
            print(sid, c, tier, "rc", p.returncode, "CAUGHT" if p.returncode == 1 else "missed/inconclusive", f"{out[c]['wall']}s")
            for s in sigs[:4]:
                print("   ", s)
            if p.returncode == 2:
                print("   ", [l for l in p.stdout.splitlines() if l.startswith("INCONC")][:1])
    finally:
        if target == "/repo":
            subprocess.run(["git", "-C", "/repo", "checkout", "--", "."])
        else:
            subprocess.run(["git", "-C", "/repo", "worktree", "remove", "--force", target])
    return 0


if __name__ == "__main__":
    sys.exit(main())

"""Deliberate property-breaking edits (the K lists of DESIGN.md section 3) used to
validate the monitors.  Each entry: (name, property, file under /repo/src/stabilize, old, new)."""

M = []


def m(name, prop, file, old, new):
    M.append({"name": name, "prop": prop, "file": file, "old": old, "new": new})


# ---- C01
m("complete_task_mark_outside_txn", "C01", "handlers/complete_task.py",
  """                # Atomic deduplication
                if message.message_id:
                    txn.mark_message_processed(
                        message_id=message.message_id,
                        handler_type="CompleteTask",
                        execution_id=message.execution_id,
                    )

                if next_task is not None:""",
  """                if next_task is not None:""")
m("success_continuation_pushed_after_commit", "C01", "handlers/run_task/result.py",
  """    txn_helper.execute_atomic(
        stage=stage,
        source_message=message,
        messages_to_push=[
            (
                CompleteTask(
                    execution_type=message.execution_type,
                    execution_id=message.execution_id,
                    stage_id=message.stage_id,
                    task_id=message.task_id,
                    status=result.status,
                ),
                None,
            )
        ],
        handler_name="RunTask",
    )


def _handle_suspended(""",
  """    txn_helper.execute_atomic(
        stage=stage,
        source_message=message,
        messages_to_push=[],
        handler_name="RunTask",
    )
    txn_helper.queue.push(
        CompleteTask(
            execution_type=message.execution_type,
            execution_id=message.execution_id,
            stage_id=message.stage_id,
            task_id=message.task_id,
            status=result.status,
        )
    )


def _handle_suspended(""")
m("recovery_skips_running_tasks", "C01", "recovery.py",
  "                running_tasks = [t for t in stage.tasks if t.status == WorkflowStatus.RUNNING]",
  "                running_tasks = []")
m("recovery_no_pending_guard_runtask", "C10", "recovery.py",
  """                        if self.queue.has_pending_message_for_task(task.id):
                            logger.debug(
                                "Skipping recovery for task %s - message already in queue",
                                task.id,
                            )
                            continue
""", "")
m("recovery_no_pending_guard_starttask", "C10", "recovery.py",
  "                    if not self.queue.has_pending_message_for_task(first_task.id):", "                    if True:")
m("recovery_requeues_succeeded_tasks", "C10", "recovery.py",
  "                running_tasks = [t for t in stage.tasks if t.status == WorkflowStatus.RUNNING]",
  "                running_tasks = [t for t in stage.tasks if t.status in (WorkflowStatus.RUNNING, WorkflowStatus.SUCCEEDED)]")
# ---- C02
m("runtask_no_status_guard", "C02", "handlers/run_task/handler.py",
  "            if task_model.status != WorkflowStatus.RUNNING:", "            if False:")
m("completestage_no_notstarted_guard", "C02", "handlers/complete_stage/handler.py",
  "            if stage.status == WorkflowStatus.NOT_STARTED:\n                logger.debug(\n                    \"Ignoring CompleteStage",
  "            if False:\n                logger.debug(\n                    \"Ignoring CompleteStage")
m("dedup_check_disabled", "C09", "queue/processor/mixins.py",
  "                if self._store is not None and self._store.is_message_processed(message_id):", "                if False:")
m("dedup_trust_bloom_negative_always", "C09", "queue/processor/mixins.py",
  "            if dedup.maybe_seen(message_id) or not (trust_negative and dedup.authoritative):", "            if dedup.maybe_seen(message_id):")
m("bloom_query_fewer_positions", "C09", "queue/dedup.py",
  "        positions = self._get_hash_positions(message_id)\n\n        with self._lock:\n            for pos in positions:\n                self._set_bit(pos)\n            self._items_added += 1",
  "        positions = self._get_hash_positions(message_id)[:-1]\n\n        with self._lock:\n            for pos in positions:\n                self._set_bit(pos)\n            self._items_added += 1")
m("starttask_no_status_guard", "C02", "handlers/start_task.py",
  "            if task_model.status != WorkflowStatus.NOT_STARTED:", "            if task_model.status.is_complete:")
# ---- C03
m("and_join_ready_when_not_ready", "C03", "dag/readiness.py",
  """    if active_ids:
        return ReadinessResult(
            phase=PredicatePhase.NOT_READY,
            reason=f"Upstream stages still active: {', '.join(active_ids)}",""",
  """    if active_ids and len(active_ids) > 1:
        return ReadinessResult(
            phase=PredicatePhase.NOT_READY,
            reason=f"Upstream stages still active: {', '.join(active_ids)}",""")
m("n_of_m_counts_halted", "C03", "dag/readiness.py",
  "        if upstream.status in CONTINUABLE_STATUSES:\n            completed_ids.append(upstream.id)\n        elif upstream.status in HALT_STATUSES:",
  "        if upstream.status in CONTINUABLE_STATUSES or upstream.status in HALT_STATUSES:\n            completed_ids.append(upstream.id)\n        elif upstream.status in HALT_STATUSES:")
m("and_join_ignores_halted", "C03", "dag/readiness.py",
  "        if upstream.status in HALT_STATUSES:\n            failed_ids.append(upstream.id)\n\n    if failed_ids:\n        return ReadinessResult(\n            phase=PredicatePhase.SKIP,\n            reason=f\"Upstream stages halted",
  "        if upstream.status in HALT_STATUSES and False:\n            failed_ids.append(upstream.id)\n\n    if failed_ids:\n        return ReadinessResult(\n            phase=PredicatePhase.SKIP,\n            reason=f\"Upstream stages halted")
# ---- C04
m("claim_without_phase_check", "C04", "persistence/sqlite/transaction.py",
  "                    WHERE id = :id AND version = :version AND status = :expected_phase", "                    WHERE id = :id AND version = :version")
m("claim_without_version_check", "C04", "persistence/sqlite/transaction.py",
  "                    WHERE id = :id AND version = :version AND status = :expected_phase", "                    WHERE id = :id AND status = :expected_phase")
m("txn_store_without_version_check", "C07", "persistence/sqlite/transaction.py",
  "                    WHERE id = :id AND version = :version\n                    \"\"\",", "                    WHERE id = :id\n                    \"\"\",")
m("plain_store_without_version_check", "C07", "persistence/sqlite/store/stage_ops.py",
  "                    WHERE id = :id AND version = :version\n                    \"\"\",", "                    WHERE id = :id\n                    \"\"\",")
m("store_does_not_bump_version", "C07", "persistence/sqlite/store/stage_ops.py",
  "                        end_time = :end_time,\n                        version = version + 1\n                    WHERE id = :id AND version = :version\n",
  "                        end_time = :end_time\n                    WHERE id = :id AND version = :version\n")
# ---- C05
m("terminal_stage_workflow_succeeds", "C05", "handlers/complete_workflow.py",
  "        if WorkflowStatus.TERMINAL in statuses:\n            return WorkflowStatus.TERMINAL", "        if WorkflowStatus.TERMINAL in statuses and False:\n            return WorkflowStatus.TERMINAL")
m("cancelstage_skips_running", "C05", "handlers/cancel_stage.py",
  "            if stage.status.is_complete:", "            if stage.status.is_complete or stage.status == WorkflowStatus.RUNNING:")
m("no_continue_parent_after_after_stage", "C05", "handlers/complete_stage/handler.py",
  "                        elif not downstream_stages and phase is not None:", "                        elif not downstream_stages and phase is not None and phase.value != \"STAGE_AFTER\":")
# ---- C06
m("cancelstage_no_complete_guard", "C06", "handlers/cancel_stage.py",
  "            if stage.status.is_complete:", "            if False:")
m("completetask_accepts_non_running", "C06", "handlers/complete_task.py",
  "            if task.status != WorkflowStatus.RUNNING:", "            if task.status == WorkflowStatus.NOT_STARTED:")
m("skipstage_on_running", "C06", "handlers/skip_stage.py",
  "            if stage.status != WorkflowStatus.NOT_STARTED:", "            if stage.status.is_complete:")
# ---- C08
m("poll_claim_without_version", "C08", "queue/sqlite/queue.py",
  "            WHERE id = :id AND version = :version\n            \"\"\",\n            {\n                \"id\": msg_id,\n                \"locked_until\": locked_until.isoformat(),\n                \"version\": version,",
  "            WHERE id = :id AND :version >= 0\n            \"\"\",\n            {\n                \"id\": msg_id,\n                \"locked_until\": locked_until.isoformat(),\n                \"version\": version,")
m("move_to_dlq_commits_between", "C08", "queue/sqlite/dlq.py",
  "        if not row:\n            logger.warning(\"Message %s not found for DLQ move\", msg_id)\n            return\n",
  "        if not row:\n            logger.warning(\"Message %s not found for DLQ move\", msg_id)\n            return\n        conn.commit()\n")
m("move_to_dlq_drops", "C08", "queue/sqlite/dlq.py",
  "                \"error\": error or \"Max attempts exceeded\",", "                \"error\": (error or \"Max attempts exceeded\") if row[\"attempts\"] < 3 else None,")
m("reschedule_keeps_lock", "C08", "queue/sqlite/queue.py",
  "            SET deliver_at = :deliver_at,\n                locked_until = NULL", "            SET deliver_at = :deliver_at")
# ---- C11
m("skip_acquire_claim_mutex", "C11", "handlers/start_stage/handler.py",
  "                if stage.mutex_key and not txn.acquire_claim(", "                if False and not txn.acquire_claim(")
m("steal_from_running_owner", "C11", "persistence/sqlite/transaction.py",
  "            if owner_gone or owner_terminal:", "            if True:")
m("retention_deletes_live_claims", "C11", "persistence/sqlite/operations.py",
  "            WHERE status IN ({placeholders})\n        )", "            WHERE status IN ({placeholders}) OR 1=1\n        )")
m("choice_claim_not_checked", "C11", "handlers/start_stage/handler.py",
  "                if stage.deferred_choice_group and not txn.acquire_claim(", "                if False and not txn.acquire_claim(")
# ---- C12
m("stage_failed_event_dropped", "C12", "handlers/complete_stage/handler.py",
  "        if status.is_failure:\n            error = stage.context.get(\"exception\", {}).get(\"details\", {}).get(\"error\", \"Unknown error\")\n            self.event_recorder.record_stage_failed(",
  "        if status.is_failure:\n            return\n            self.event_recorder.record_stage_failed(")
m("as_of_strict", "C12", "events/replay.py", "                if e.sequence <= as_of_sequence", "                if e.sequence < as_of_sequence")
m("stage_completed_ignores_status", "C12", "events/replay.py",
  "            stage[\"status\"] = event.data.get(\"status\", \"SUCCEEDED\")", "            stage[\"status\"] = \"SUCCEEDED\"")
m("snapshot_start_off_by_one", "C12", "events/store/sqlite/events.py",
  "            WHERE workflow_id = ? AND sequence > ?\n            ORDER BY sequence ASC", "            WHERE workflow_id = ? AND sequence >= ?\n            ORDER BY sequence ASC")
# ---- C13
m("task_event_before_txn", "C13", "handlers/complete_task.py",
  "            with self.repository.transaction(self.queue) as txn:\n                txn.store_stage(stage)\n                record_completion_event()\n\n                # Atomic deduplication",
  "            record_completion_event()\n            with self.repository.transaction(self.queue) as txn:\n                txn.store_stage(stage)\n\n                # Atomic deduplication")
m("event_store_never_joins_scope", "C13", "events/recorder/base.py",
  "        return store_url is not None and store_url == scope.url", "        return False")
m("bus_publish_not_deferred", "C13", "events/recorder/base.py",
  "            if scope is not None:\n                # Defer publication until the transaction commits; dropped on\n                # rollback so subscribers never observe uncommitted state.\n                scope.pending.append(recorded)\n            else:",
  "            if False:\n                scope.pending.append(recorded)\n            else:")
# ---- C14 (after the known finding they are masked unless distinct)
m("transient_context_update_dropped", "C14", "handlers/run_task/error.py",
  "            fresh_stage.context.update(context_update)\n            # Atomic: store stage with context update + push retry message", "            # Atomic: store stage with context update + push retry message")
m("poll_requeue_without_store", "C14", "handlers/run_task/result.py",
  "    txn_helper.execute_atomic(\n        stage=stage,\n        messages_to_push=[(message, delay.total_seconds())],", "    txn_helper.execute_atomic(\n        messages_to_push=[(message, delay.total_seconds())],")
# ---- C15
m("jump_limit_off_by_one", "C15", "handlers/jump_to_stage/handler.py", "        if jump_count >= max_jumps:", "        if jump_count > max_jumps:")
m("jump_counter_not_persisted", "C15", "handlers/jump_to_stage/handler.py",
  "                source_context_updates = {\n                    \"_jump_count\": new_jump_count,", "                source_context_updates = {\n                    \"_jump_count\": jump_count,")
m("rearm_naive_closure", "C15", "handlers/jump_to_stage/traversal.py",
  "            if has_upstream_in_scope and all_upstreams_in_scope:\n                resettable_ref_ids.add(stage.ref_id)", "            if has_upstream_in_scope:\n                resettable_ref_ids.add(stage.ref_id)")
# ---- C16
m("ancestor_bfs_depth_one", "C16", "persistence/sqlite/queries.py",
  "                visited.add(req)\n                ancestors.add(req)\n                queue.append(req)", "                visited.add(req)\n                ancestors.add(req)")
m("own_context_loses", "C16", "handlers/start_stage/planner.py",
  "            else:\n                merged[key] = value\n\n        stage.context = merged", "            else:\n                merged.setdefault(key, value)\n\n        stage.context = merged")
m("list_merge_overwrites", "C16", "persistence/sqlite/queries.py",
  "            if key in merged_result and isinstance(merged_result[key], list) and isinstance(value, list):", "            if False:")
# ---- C17
m("runtask_ignores_cancel", "C17", "handlers/run_task/handler.py", "            if execution.is_canceled:\n                handle_cancellation(", "            if False:\n                handle_cancellation(")
m("cancel_without_complete_workflow", "C17", "handlers/workflow_control.py",
  "                txn.push_message(\n                    CompleteWorkflow(\n                        execution_type=message.execution_type,\n                        execution_id=message.execution_id,\n                    )\n                )\n\n            logger.info(\n                \"Canceling execution",
  "\n            logger.info(\n                \"Canceling execution")
m("cancel_only_running_stages", "C17", "handlers/workflow_control.py",
  "            to_cancel = [s for s in execution.top_level_stages() if not s.status.is_complete]", "            to_cancel = [s for s in execution.top_level_stages() if s.status == WorkflowStatus.RUNNING]")
# ---- C18
m("suspend_ignores_buffer", "C18", "handlers/run_task/result.py", "    buffered = stage.context.get(\"_buffered_signals\", [])\n    if buffered:", "    buffered = stage.context.get(\"_buffered_signals\", [])\n    if False:")
m("buffer_not_cleared", "C18", "handlers/run_task/result.py", "        signal = buffered.pop(0)\n        stage.context[\"_buffered_signals\"] = buffered", "        signal = buffered[0]")
m("transient_signal_buffered", "C18", "handlers/signal_stage.py", "            if message.persistent:", "            if message.persistent or True:")
# ---- C19
m("mutex_key_not_stored", "C19", "persistence/sqlite/helpers.py", "            \"mutex_key\": stage.mutex_key,", "            \"mutex_key\": None,")
m("tasks_ordered_by_name", "C19", "persistence/sqlite/store/workflow_crud.py", "                WHERE stage_id = :stage_id\n                ORDER BY id ASC", "                WHERE stage_id = :stage_id\n                ORDER BY name ASC")
m("txn_push_enum_by_value", "C19", "persistence/sqlite/transaction.py", "            elif isinstance(value, Enum):\n                data[key] = value.name", "            elif isinstance(value, Enum):\n                data[key] = value.value if isinstance(value.value, str) else value.name")
m("store_stage_drops_end_time", "C19", "persistence/sqlite/store/stage_ops.py",
  "                        \"end_time\": stage.end_time,\n                        \"version\": stage.version,\n                    },\n                )\n\n            if cursor.rowcount == 0:", "                        \"end_time\": stage.end_time or stage.start_time,\n                        \"version\": stage.version,\n                    },\n                )\n\n            if cursor.rowcount == 0:")
# ---- C20
m("validator_no_unknown_ref_check", "C20", "dag/topological.py", "        if unknown:\n            raise InvalidStageGraphError(", "        if unknown and False:\n            raise InvalidStageGraphError(")
m("expr_supports_calls", "C20", "expressions.py", "    raise ExpressionError(f\"Unsupported expression node: {type(node).__name__}\")",
  "    if isinstance(node, ast.Call):\n        return _eval_node(node.func, context)(*[_eval_node(a, context) for a in node.args])\n    raise ExpressionError(f\"Unsupported expression node: {type(node).__name__}\")")
m("expr_name_fallback_builtins", "C20", "expressions.py", "        return None  # Missing context keys evaluate to None", "        return __builtins__.get(node.id) if isinstance(__builtins__, dict) else getattr(__builtins__, node.id, None)")
m("sort_ignores_one_edge", "C20", "dag/topological.py",
  "            stage_by_id[sid] for sid in unsorted_ids if ref_ids.issuperset(stage_by_id[sid].requisite_stage_ref_ids)\n        ]\n\n        if not sortable:",
  "            stage_by_id[sid] for sid in unsorted_ids if ref_ids.issuperset(sorted(stage_by_id[sid].requisite_stage_ref_ids)[:2])\n        ]\n\n        if not sortable:")

# ---- second round (sharper variants after the first campaign)
m("claim_without_version_and_phase", "C04", "persistence/sqlite/transaction.py",
  "                    WHERE id = :id AND version = :version AND status = :expected_phase", "                    WHERE id = :id AND :version >= 0 AND :expected_phase != ''")
m("terminal_stage_workflow_reported_succeeded", "C05", "handlers/complete_workflow.py",
  "        if WorkflowStatus.TERMINAL in statuses:\n            return WorkflowStatus.TERMINAL", "        if WorkflowStatus.TERMINAL in statuses:\n            return WorkflowStatus.SUCCEEDED")
m("cancelstage_unguarded_direct_assign", "C06", "handlers/cancel_stage.py",
  "            if stage.status.is_complete:\n                logger.debug(\n                    \"Ignoring CancelStage for %s (%s) - already %s\",\n                    stage.name,\n                    stage.id,\n                    stage.status,\n                )\n                return",
  "            if stage.status.is_complete and stage.status != WorkflowStatus.SUCCEEDED:\n                return\n            stage.status = WorkflowStatus.RUNNING")
m("completetask_unguarded_direct_assign", "C06", "handlers/complete_task.py",
  "            if task.status != WorkflowStatus.RUNNING:", "            task.status = WorkflowStatus.RUNNING if task.status.is_complete else task.status\n            if task.status == WorkflowStatus.NOT_STARTED:")
m("move_to_dlq_skips_insert_at_limit", "C08", "queue/sqlite/dlq.py",
  "        conn.execute(\n            f\"\"\"\n            INSERT INTO {self.table_name}_dlq (\n                original_id, message_id, message_type, payload,\n                attempts, error, last_error_at, created_at",
  "        if row[\"attempts\"] >= 3 and error and error.startswith(\"Exceeded\"):\n            conn.commit()\n            return\n        conn.execute(\n            f\"\"\"\n            INSERT INTO {self.table_name}_dlq (\n                original_id, message_id, message_type, payload,\n                attempts, error, last_error_at, created_at")
m("discriminator_fired_flag_ignored", "C03", "dag/readiness.py",
  "    join_fired = stage.context.get(\"_join_fired\", False)\n\n    if join_fired:\n        # Already fired - check if all upstreams are done (reset condition)",
  "    join_fired = False\n\n    if join_fired:\n        # Already fired - check if all upstreams are done (reset condition)")
m("and_join_running_upstream_counts", "C03", "dag/readiness.py",
  "        if upstream.status not in CONTINUABLE_STATUSES:\n            not_complete_ids.append(upstream.id)\n            if upstream.status in ACTIVE_STATUSES:\n                active_ids.append(upstream.id)\n\n    if not not_complete_ids:\n        return ReadinessResult(\n            phase=PredicatePhase.READY,\n            reason=\"All upstream stages complete\",",
  "        if upstream.status not in CONTINUABLE_STATUSES and upstream.status.name != \"RUNNING\":\n            not_complete_ids.append(upstream.id)\n            if upstream.status in ACTIVE_STATUSES:\n                active_ids.append(upstream.id)\n\n    if not not_complete_ids:\n        return ReadinessResult(\n            phase=PredicatePhase.READY,\n            reason=\"All upstream stages complete\",")
m("nofm_threshold_minus_one", "C03", "dag/readiness.py", "    if len(completed_ids) >= threshold:", "    if len(completed_ids) >= threshold - 1 and completed_ids:")
m("or_join_ignores_activation", "C03", "dag/readiness.py",
  "    relevant_upstreams = [u for u in upstream_stages if u is not None and u.ref_id in activated_set]\n", "    relevant_upstreams = [u for u in upstream_stages if u is not None and u.ref_id in activated_set][:1]\n")

"""C11 - mutex admits one running stage; a deferred choice has exactly one winner."""

from __future__ import annotations

import json
import os
import random
from collections import Counter

from .. import interleave as il
from .. import oracles, specs
from ..framework import viol
from ..runs import delivery_run, summarize
from . import c04

ID = "C11"
LEVEL = "exploration"
LEVEL_TEXT = "all interleavings with <= 2 preemptions of two sibling StartStage handlers (sampled in quick), random / PCT schedules for three workers with the retention sweep as a fourth thread; held on the interleavings produced"
RULE = (
    "workflows with 2-3 sibling stages sharing a mutex key (holder succeeds / fails / polls slowly / is re-armed by a "
    "jump) or one deferred-choice group. Pair scenario: StartStage(sibling1) x StartStage(sibling2) from the cut point "
    "where both are pending, every schedule with <= 2 preemptions; whole-workflow runs with 3 workers under random / PCT "
    "schedules plus a thread running cleanup_completed_stage_claims() and cleanup_old_processed_messages() at arbitrary "
    "yield points; delivery-engine schedules (reorder, withheld acks) for the surrounding workflow, also with a retention "
    "sweep and an operator restart of a sibling of the decided group after the workflow finished; and the take-over race: "
    "three siblings of one mutex, the first holder finished, the StartStage of the two waiters as the designated pair. Oracle per commit "
    "group of the audit log: <= 1 RUNNING stage per mutex key; a claim row changes owner only when the previous owner "
    "is complete; at quiescence every mutex stage has run; per choice group exactly one stage ever left NOT_STARTED "
    "for RUNNING and all others are CANCELED. Non-trivial = schedule with a switch inside the race (or delivery "
    "schedule differing from FIFO); distinct = trace hash."
)
ASSUMPTIONS = ["SQLite backend, busy timeout 0 under the cooperative scheduler", "bounded progress: a waiting mutex stage must have run once the queue is drained (virtual time, default wait budget)"]
MIN_OBS = {"schedules_with_switch": {"quick": 1500, "thorough": 20000}, "commit_groups_checked": {"quick": 20000, "thorough": 300000}, "takeover_schedules_with_switch": {"quick": 150, "thorough": 2500}}
TIMEOUT = {"quick": 800, "thorough": 3400}


def mutex_spec(kind: str, n: int = 2) -> dict:
    sib = [f"m{i + 1}" for i in range(n)]
    t_ok = [dict(specs.OK)]
    stages = [specs.st("r")]
    for i, m in enumerate(sib):
        t = [dict(specs.OK, out=[m + "_o"])]
        if kind == "fail" and i == 0:
            t = [{"kind": "term"}]
        if kind == "slow":
            t = [{"kind": "poll", "n": 2, "out": [m + "_o"]}]
        if kind == "two_tasks":
            t = [dict(specs.OK), dict(specs.OK)]
        if kind == "suspend" and i == 0:
            # the holder parks inside its critical section until a signal arrives
            t = [{"kind": "suspend", "out": [m + "_o"]}]
        s = specs.st(m, ["r"], t, mutex="M")
        if kind == "fail" and i == 0:
            s["ctx"] = {"continuePipelineOnFailure": True}
        stages.append(s)
    stages.append(specs.st("z", sib, t_ok))
    return {"name": f"mutex_{kind}{n}", "confluent": True, "stages": stages, "mutex": {"M": sib}}


def choice_spec(n: int = 2) -> dict:
    sib = [f"c{i + 1}" for i in range(n)]
    return {"name": f"choice{n}", "confluent": False, "stages": [specs.st("r")] + [specs.st(c, ["r"], choice="G") for c in sib], "choice": {"G": sib}}


def choice_with_mutexes_spec() -> dict:
    """The siblings of one deferred-choice group each also hold a mutex of their own (different keys): taking the
    mutex must not stand in for claiming the choice."""
    sib = ["c1", "c2"]
    stages = [specs.st("r")]
    for i, c in enumerate(sib):
        stages.append(specs.st(c, ["r"], choice="G", mutex=f"K{i}"))
    return {"name": "choice_mutex2", "confluent": False, "stages": stages, "choice": {"G": sib}, "mutex": {"K0": ["c1"], "K1": ["c2"]}}


def mutex_jump_spec() -> dict:
    """m1 (mutex) -> c jumps back to m1 once; m2 (mutex) is a sibling of m1."""
    return {
        "name": "mutex_jump",
        "confluent": True,
        "stages": [
            specs.st("r"),
            specs.st("m1", ["r"], mutex="M"),
            specs.st("c", ["m1"], [{"kind": "jump", "to": "m1", "times": 1}]),
            specs.st("m2", ["r"], [{"kind": "poll", "n": 1}], mutex="M"),
        ],
        "mutex": {"M": ["m1", "m2"]},
    }


SPECS = [
    lambda: mutex_spec("ok", 2),
    lambda: mutex_spec("ok", 3),
    lambda: mutex_spec("fail", 2),
    lambda: mutex_spec("slow", 2),
    lambda: mutex_spec("two_tasks", 2),
    lambda: choice_spec(2),
    lambda: choice_spec(3),
    mutex_jump_spec,
    lambda: mutex_spec("suspend", 2),
    choice_with_mutexes_spec,
]


def gen_cases(tier: str, seed: int) -> list[dict]:
    cases = []
    chunks = 2 if tier == "quick" else 10
    for si in (0, 2, 3, 4, 5, 9):
        for c in range(chunks):
            cases.append({"kind": "pair", "spec": si, "chunk": c, "chunks": chunks, "seed": seed, "sample": 200 if tier == "quick" else 4000})
    for c in range(chunks):
        cases.append({"kind": "pair", "spec": 1, "takeover": True, "chunk": c, "chunks": chunks, "seed": seed, "sample": 200 if tier == "quick" else 4000})
    for i in range(24 if tier == "quick" else 250):
        cases.append({"kind": "whole", "i": i, "seed": seed, "runs": 12})
    for si in range(len(SPECS)):
        cases.append({"kind": "delivery", "spec": si, "seed": seed, "nsched": 30 if tier == "quick" else 300})
    return cases


def group_oracle(spec: dict, run, prop: str = "C11") -> tuple[list[dict], Counter]:
    out = []
    obs: Counter = Counter()
    ids = oracles.stage_ids(run.audit)
    by_id = {v: k for k, v in ids.items()}
    groups = oracles.Groups(run.commits)
    status: dict[str, str] = {}
    key_of = {}
    for k, sibs in (spec.get("mutex") or {}).items():
        for s in sibs:
            key_of[s] = k
    cur_group = None
    rows = [a for a in run.audit if a["kind"] in ("status", "claim")]

    def check_group(g):
        obs["commit_groups_checked"] += 1
        per_key: dict[str, list[str]] = {}
        for ref, st in status.items():
            if st == "RUNNING" and ref in key_of:
                per_key.setdefault(key_of[ref], []).append(ref)
        for k, rs in per_key.items():
            if len(rs) > 1:
                out.append(viol(f"{prop}/two-mutex-stages-running", f"after commit group {g} (by {groups.tag(g)}): {sorted(rs)} share mutex '{k}' and are both RUNNING"))

    for a in rows:
        g = groups.of(a["seq"])
        if cur_group is not None and g != cur_group:
            check_group(cur_group)
        cur_group = g
        if a["kind"] == "status" and a["op"] in ("stage", "stage_ins"):
            ref = by_id.get(a["a"])
            if ref:
                status[ref] = a["d"]
        elif a["kind"] == "claim" and a["op"] == "upd" and a["d"] != a["c"]:
            old = by_id.get(a["d"])
            obs["claim_steals"] += 1
            if old and status.get(old) not in oracles.COMPLETE:
                out.append(viol(f"{prop}/claim-stolen-from-live-owner", f"claim {a['b']} moved from {old} ({status.get(old)}) to {by_id.get(a['c'])}"))
        elif a["kind"] == "claim" and a["op"] == "del":
            owner = by_id.get(a["c"])
            obs["claim_deletes"] += 1
            wf_final = any(x["kind"] == "status" and x["op"] == "wf" and x["d"] in oracles.COMPLETE and x["seq"] < a["seq"] for x in run.audit)
            if not wf_final:
                out.append(viol(f"{prop}/claim-of-live-execution-deleted", f"claim {a['b']} of {owner} deleted while the workflow was not final"))
    if cur_group is not None:
        check_group(cur_group)
    final = run.state["stages"]
    if run.quiescent:
        for k, sibs in (spec.get("mutex") or {}).items():
            for s in sibs:
                if final[s]["status"] not in oracles.COMPLETE and final[s]["status"] != "SUSPENDED":
                    out.append(viol(f"{prop}/mutex-stage-never-ran", f"{s} is {final[s]['status']} at quiescence (workflow {run.state['wf']}); siblings { {x: final[x]['status'] for x in sibs} }"))
        starts = oracles.starts_per_iteration(run.audit)
        for gname, sibs in (spec.get("choice") or {}).items():
            started = [s for s in sibs if sum(starts.get(ids[s], [0])) > 0]
            if len(started) != 1:
                out.append(viol(f"{prop}/deferred-choice-winners-{len(started)}", f"group {gname}: stages that started: {started}"))
            losers = [s for s in sibs if s not in started]
            notc = {s: final[s]["status"] for s in losers if final[s]["status"] != "CANCELED"}
            if notc:
                out.append(viol(f"{prop}/deferred-choice-loser-not-canceled", f"{notc}"))
    return out, obs


def _cut_siblings(spec: dict):
    from ..world import World

    sibs = (list((spec.get("choice") or {}).values()) + list((spec.get("mutex") or {}).values()))[0][:2]
    w = World()
    try:
        w.submit(spec)
        for _ in range(200):
            rows = w.rows()
            if not rows:
                return None
            st = w.snapshot_state()["stages"]
            sid = [st[s]["id"] for s in sibs]
            ss = {c04._stage_id_of(r): r for r in rows if r["type"] == "StartStage"}
            if all(x in ss for x in sid):
                path = os.path.join(il.env.scratch_dir(), f"cut-{os.getpid()}-{random.randrange(1 << 40)}.db")
                w.copy_db(path)
                return path, [ss[x]["id"] for x in sid]
            w.deliver(w.eligible(rows)[0]["id"])
        return None
    finally:
        w.close()


def _cut_takeover(spec: dict):
    """Three siblings of one mutex; the first holder has FINISHED (its claim row is still there, owner terminal) and
    the StartStage messages of the two waiters are both queued: the two take-overs race."""
    from ..world import World

    sibs = list((spec.get("mutex") or {}).values())[0][:3]
    w = World()
    try:
        w.submit(spec)
        for _ in range(300):
            rows = w.rows()
            if not rows:
                return None
            st = w.snapshot_state()["stages"]
            done = [s for s in sibs if st[s]["status"] in oracles.COMPLETE]
            waiting = [s for s in sibs if st[s]["status"] == "NOT_STARTED"]
            ss = {c04._stage_id_of(r): r for r in rows if r["type"] == "StartStage"}
            if len(done) == 1 and len(waiting) == 2 and all(st[x]["id"] in ss for x in waiting):
                path = os.path.join(il.env.scratch_dir(), f"cut-{os.getpid()}-{random.randrange(1 << 40)}.db")
                w.copy_db(path)
                return path, [ss[st[x]["id"]]["id"] for x in waiting]
            ready = w.eligible(rows)
            if not ready:
                return None
            # keep the waiters' (re-queued) StartStage messages back: deliver everything else first
            other = [r for r in ready if not (r["type"] == "StartStage" and c04._stage_id_of(r) in {st[x]["id"] for x in waiting} and done)]
            w.deliver((other or ready)[0]["id"])
        return None
    finally:
        w.close()


def _pair(case: dict) -> dict:
    spec = SPECS[case["spec"]]()
    cp = _cut_takeover(spec) if case.get("takeover") else _cut_siblings(spec)
    obs: Counter = Counter()
    keys: set = set()
    violations = []
    if cp is None:
        return {"violations": [], "obs": {"cut_point_not_reached": 1}, "keys": []}
    db, rows = cp
    sample = None
    try:
        na, nb = il.solo_length(db, rows[0]), il.solo_length(db, rows[1])
        rng = random.Random(case["seed"] * 67 + case["spec"])
        scheds = il.bound_schedules(na, nb, 2, sample=case["sample"], rng=rng)
        scheds = [s for i, s in enumerate(scheds) if i % case["chunks"] == case["chunk"]]
        for sc in scheds:
            run, info = il.run_pair(db, rows, il.Segments(sc), max_steps=600)
            obs["evaluations"] += 1
            if run is None:
                obs["scheduler_watchdog"] += 1
                continue
            if info["switches"]:
                obs["schedules_with_switch"] += 1
                keys.add(f"{spec['name']}{':takeover' if case.get('takeover') else ''}:{info['trace_hash']}")
                if case.get("takeover"):
                    obs["takeover_schedules_with_switch"] += 1
            if info["lock_blocks"]:
                obs["schedules_with_lock_block"] += 1
            v, o = group_oracle(spec, run)
            obs.update(o)
            v = c04.classify(v, run) if any("never-ran" in x["sig"] for x in v) else v
            for x in v:
                x.update(spec=spec["name"], schedule=sc)
            violations += v
            if sample is None and info["switches"] >= 2:
                sample = {"spec": spec["name"], "schedule": sc, "trace": [f"{t}:{l}" for t, l in info["trace"]][:70], "final": summarize(run)}
    finally:
        os.unlink(db)
    return {"violations": _uniq(violations), "obs": dict(obs), "keys": sorted(keys), "sample": sample}


def _sweeper(w, stop):
    """Fourth pseudo-thread: the retention sweep at arbitrary yield points."""

    def body() -> None:
        n = 0
        while not stop[0] and n < 40:
            n += 1
            try:
                w.store.cleanup_completed_stage_claims()
                w.store.cleanup_old_processed_messages(max_age_hours=24.0)
            except Exception as e:
                w.errors.append(("sweeper", "sweep", f"{type(e).__name__}: {e}"))
                try:
                    w.store._get_connection().rollback()
                except Exception:
                    pass

    return body


def _whole(case: dict) -> dict:
    rng = random.Random(case["seed"] * 71 + case["i"])
    obs: Counter = Counter()
    keys: set = set()
    violations = []
    for j in range(case["runs"]):
        spec = rng.choice(SPECS[:8])()
        s = rng.randrange(1 << 30)
        pol = il.RandomPolicy(s, rng.choice([0.2, 0.4])) if j % 2 else il.PCT(s, rng.randint(2, 5), 500)
        extra = {"S": _sweeper} if rng.random() < 0.6 else None
        run, info = il.run_workers(spec, 3, pol, extra_bodies=extra)
        obs["evaluations"] += 1
        if run is None:
            obs["scheduler_watchdog"] += 1
            continue
        if info["switches"]:
            obs["schedules_with_switch"] += 1
            keys.add(f"whole:{spec['name']}:{info['trace_hash']}")
        if extra:
            obs["runs_with_retention_sweeper"] += 1
        v, o = group_oracle(spec, run)
        obs.update(o)
        v = oracles.attribute(c04.classify(v, run), run, "C11")
        for x in v:
            x.update(spec=spec["name"], policy_seed=s, sweeper=bool(extra))
        violations += v
    return {"violations": _uniq(violations), "obs": dict(obs), "keys": sorted(keys)}


def _delivery(case: dict) -> dict:
    spec = SPECS[case["spec"]]()
    rng = random.Random(case["seed"] * 73 + case["spec"])
    obs: Counter = Counter()
    keys: set = set()
    violations = []
    parked = "suspend" in spec["name"]
    ref = delivery_run(spec, max_steps=60 if parked else 1500)  # a parked holder keeps its waiter polling: no quiescence without the signal
    for j in range(case["nsched"]):
        inj = [{"at": rng.randrange(1, max(2, ref.steps)), "do": "retention"}] if j % 3 == 0 else []
        if spec.get("choice") and j % 3 == 1:
            # after the workflow finished: retention sweep (claim rows of finished stages go away), then an operator
            # restart of one sibling of the decided group - the decision must survive the sweep
            sib = rng.choice(sorted(next(iter(spec["choice"].values()))))
            inj = list(inj) + [{"at": ref.steps + rng.randrange(1, 12), "do": "retention"}, {"at": ref.steps + rng.randrange(12, 30), "do": "restart_stage", "ref": sib}]
            obs["restart_after_retention_sweep"] += 1
        if "suspend" in spec["name"]:
            # the signal that resumes the parked holder arrives at some later moment
            inj = list(inj) + [{"at": rng.randrange(8, 70), "do": "signal", "ref": "m1", "persistent": True, "id": "s"}]
        run = delivery_run(spec, seed=rng.randrange(1 << 30), order=rng.choice(["random", "lifo"]), noack_p=rng.choice([0.0, 0.25]), injections=inj, max_steps=ref.steps * 6 + 300)
        obs["evaluations"] += 1
        if run.budget_exhausted:
            obs["budget_exhausted"] += 1
            continue
        v, o = group_oracle(spec, run)
        obs.update(o)
        v = oracles.attribute(v, run, "C11")
        for x in v:
            x.update(spec=spec["name"])
        violations += v
        keys.add(f"delivery:{spec['name']}:{hash(tuple(h.get('type') for h in run.handled)) & 0xFFFFFF:x}")
    return {"violations": _uniq(violations), "obs": dict(obs), "keys": sorted(keys)}


def _uniq(vs: list[dict]) -> list[dict]:
    seen = set()
    out = []
    for x in vs:
        if x["sig"] not in seen:
            seen.add(x["sig"])
            out.append(x)
    return out


def run_case(case: dict) -> dict:
    if case["kind"] == "pair":
        return _pair(case)
    if case["kind"] == "whole":
        return _whole(case)
    return _delivery(case)


_ = json

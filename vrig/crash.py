"""Crash engine: commit-snapshot enumeration, fresh-worker resume, real-kill cross-check.

Snapshot k is a byte copy of the database file taken right after commit k of the
worker: exactly the durable state of "the process was killed somewhere between
commit k and commit k+1" (SQLite rolls back anything uncommitted on next open;
its atomic commit is trusted).
"""

from __future__ import annotations

import json
import os
import random
import shutil
import subprocess
import sys
from typing import Any

from . import env
from .runs import Run
from .world import World


class Snapshots:
    def __init__(self, dirpath: str) -> None:
        self.dir = dirpath
        self.count = 0
        self.ledger_len: list[int] = []  # ledger length at the moment of commit k
        self.tags: list[Any] = []
        self.max_seq: list[int] = []
        self.step_of: list[int] = []

    def path(self, k: int) -> str:
        return os.path.join(self.dir, f"{k}.db")

    def cleanup(self) -> None:
        shutil.rmtree(self.dir, ignore_errors=True)


def reference_with_snapshots(spec: dict, *, seed: int = 0, order: str = "fifo", noack_p: float = 0.0, events: bool = False, max_steps: int = 800, injections: list[dict] | None = None, snapshot: bool = True, tagdir: str = "snap") -> tuple[Run, Snapshots]:
    from .runs import delivery_run

    d = os.path.join(env.scratch_dir(), f"{tagdir}-{os.getpid()}-{random.randrange(1 << 30)}")
    os.makedirs(d, exist_ok=True)
    snaps = Snapshots(d)

    def listener(world: World, idx: int, conn) -> None:
        if snapshot:
            shutil.copyfile(world.path, snaps.path(idx))
        snaps.count = idx + 1
        snaps.ledger_len.append(len(world.ledger))
        snaps.tags.append(world.commits[idx][3])
        snaps.max_seq.append(world.commits[idx][2])
        snaps.step_of.append(len(world.handled))

    w = World(events=events)
    w.commit_listeners.append(listener)
    run = delivery_run(spec, seed=seed, order=order, noack_p=noack_p, world=w, max_steps=max_steps, injections=injections)
    return run, snaps


def pre_ledger(run: Run, snaps: Snapshots, k: int) -> list[dict]:
    """Ledger attributed to a crash after commit k: everything begun before commit k+1."""
    n = snaps.ledger_len[k + 1] if k + 1 < len(snaps.ledger_len) else len(run.ledger)
    return [dict(r) for r in run.ledger[:n]]


def resume(snapshot_path: str, pre: list[dict], *, recoveries: int = 1, events: bool = False, max_steps: int = 800, snapshot_dir: str | None = None, order: str = "fifo", seed: int = 0) -> tuple[Run, Snapshots | None]:
    """Restart as a fresh worker on a copy of the snapshot: all in-memory state dropped,
    locks lapse (the delivery engine exposes rows regardless of locked_until), recovery
    sweep(s), drain to quiescence."""
    from .runs import delivery_run

    path = os.path.join(env.scratch_dir(), f"resume-{os.getpid()}-{random.randrange(1 << 30)}.db")
    shutil.copyfile(snapshot_path, path)
    snaps = None
    w = World(path=path, events=events, ledger=[dict(r) for r in pre], base_time=os.path.getmtime(snapshot_path))
    w.owns_file = True
    since = w.max_seq()
    wf_row = w._exec_side("SELECT id FROM pipeline_executions ORDER BY created_at LIMIT 1").fetchone()
    w.wf_id = wf_row[0] if wf_row else ""
    if snapshot_dir is not None:
        os.makedirs(snapshot_dir, exist_ok=True)
        snaps = Snapshots(snapshot_dir)

        def listener(world: World, idx: int, conn) -> None:
            shutil.copyfile(world.path, snaps.path(idx))
            snaps.count = idx + 1
            snaps.ledger_len.append(len(world.ledger))
            snaps.tags.append(world.commits[idx][3])
            snaps.max_seq.append(world.commits[idx][2])
            snaps.step_of.append(len(world.handled))

        w.commit_listeners.append(listener)
    for _ in range(recoveries):
        w.run_recovery()
    if not w.wf_id:
        w.close()
        r = Run()
        r.quiescent = True
        return r, snaps
    run = delivery_run({}, world=w, resubmit=False, max_steps=max_steps, order=order, seed=seed)
    run.since = since  # type: ignore[attr-defined]
    return run, snaps


# ---------------------------------------------------------------------------
# real kill cross-check (child processes)
# ---------------------------------------------------------------------------


def real_kill(spec: dict, k: int, *, seed: int = 0, order: str = "fifo", events: bool = False, timeout: float = 120.0) -> dict | None:
    """Run the same schedule in a child that calls os._exit(137) right after commit k,
    then resume in a second fresh child.  Returns the resumed final state + ledger."""
    d = os.path.join(env.scratch_dir(), f"kill-{os.getpid()}-{random.randrange(1 << 30)}")
    os.makedirs(d, exist_ok=True)
    try:
        job = {"spec": spec, "k": k, "seed": seed, "order": order, "events": events, "db": os.path.join(d, "w.db"), "ledger": os.path.join(d, "ledger.jsonl"), "out": os.path.join(d, "out.json")}
        jf = os.path.join(d, "job.json")
        with open(jf, "w") as f:
            json.dump(job, f)
        e = dict(os.environ)
        e["PYTHONHASHSEED"] = "0"
        p1 = subprocess.run([sys.executable, "-m", "vrig.crash", "child1", jf], cwd=env.VERIF, env=e, timeout=timeout, capture_output=True, text=True)
        if p1.returncode != 137:
            return {"error": f"child1 exited {p1.returncode}: {p1.stderr[-400:]}"}
        p2 = subprocess.run([sys.executable, "-m", "vrig.crash", "child2", jf], cwd=env.VERIF, env=e, timeout=timeout, capture_output=True, text=True)
        if p2.returncode != 0:
            return {"error": f"child2 exited {p2.returncode}: {p2.stderr[-400:]}"}
        with open(job["out"]) as f:
            return json.load(f)
    except subprocess.TimeoutExpired:
        return {"error": "timeout"}
    finally:
        shutil.rmtree(d, ignore_errors=True)


def _child1(job: dict) -> None:
    from .runs import delivery_run

    w = World(path=job["db"], events=job["events"], ledger_file=job["ledger"])

    def listener(world: World, idx: int, conn) -> None:
        if idx == job["k"]:
            os._exit(137)

    w.commit_listeners.append(listener)
    delivery_run(job["spec"], seed=job["seed"], order=job["order"], world=w, max_steps=800)
    os._exit(3)  # crash point never reached


def _child2(job: dict) -> None:
    from .runs import delivery_run, summarize

    pre = []
    if os.path.exists(job["ledger"]):
        with open(job["ledger"]) as f:
            pre = [json.loads(line) for line in f if line.strip()]
    w = World(path=job["db"], events=job["events"], ledger=pre)
    wf_row = w._exec_side("SELECT id FROM pipeline_executions ORDER BY created_at LIMIT 1").fetchone()
    w.wf_id = wf_row[0] if wf_row else ""
    w.run_recovery()
    if not w.wf_id:
        out = {"empty": True}
    else:
        run = delivery_run({}, world=w, resubmit=False, max_steps=800)
        out = {"summary": summarize(run), "ledger": [(r["ref"], r["task"], r["iter"]) for r in run.ledger], "quiescent": run.quiescent}
    with open(job["out"], "w") as f:
        json.dump(out, f)


if __name__ == "__main__":
    env.setup()
    with open(sys.argv[2]) as f:
        _job = json.load(f)
    if sys.argv[1] == "child1":
        _child1(_job)
    else:
        _child2(_job)

#!/venv/bin/python
"""Mutation campaign: apply each deliberate edit to /repo's working tree, run the quick
check of its property (and optionally others), restore.  Evidence/replays go to a scratch
directory.  Usage: tools/mutate.py [name-substring ...] [--checks C01,C02]"""
import json
import os
import subprocess
import sys
import tempfile
import time

HERE = os.path.dirname(os.path.dirname(os.path.abspath(__file__)))
sys.path.insert(0, os.path.join(HERE, "tools"))
from mutants import M  # noqa: E402

SRC = "/repo/src/stabilize"


def main():
    args = [a for a in sys.argv[1:] if not a.startswith("--")]
    extra = [a.split("=", 1)[1].split(",") for a in sys.argv[1:] if a.startswith("--checks=")]
    extra = extra[0] if extra else []
    tier = "quick"
    scratch = tempfile.mkdtemp(prefix="mut-", dir="/dev/shm")
    env = dict(os.environ, VERIF_EVIDENCE_DIR=os.path.join(scratch, "ev"), VERIF_REPLAY_DIR=os.path.join(scratch, "rp"))
    results = []
    dirty = subprocess.run(["git", "-C", "/repo", "status", "--porcelain"], capture_output=True, text=True).stdout.strip()
    if dirty:
        print("refusing: /repo working tree is dirty:\n" + dirty)
        return 2
    for mu in M:
        if args and not any(a in mu["name"] for a in args):
            continue
        path = os.path.join(SRC, mu["file"])
        src = open(path).read()
        if src.count(mu["old"]) != 1:
            results.append((mu["name"], mu["prop"], "NOT-APPLICABLE", f"pattern occurs {src.count(mu['old'])} times"))
            print(results[-1])
            continue
        try:
            open(path, "w").write(src.replace(mu["old"], mu["new"]))
            chk = subprocess.run(["/venv/bin/python", "-c", f"import sys; sys.path.insert(0,'/repo/src'); import stabilize, stabilize.handlers, stabilize.recovery, stabilize.events"], capture_output=True, text=True, cwd="/tmp")
            if chk.returncode != 0:
                results.append((mu["name"], mu["prop"], "DOES-NOT-IMPORT", chk.stderr[-200:]))
                print(results[-1])
                continue
            verdicts = {}
            for c in [mu["prop"]] + [x for x in extra if x != mu["prop"]]:
                t = time.time()
                p = subprocess.run([os.path.join(HERE, "vcheck"), c, "--tier", tier], capture_output=True, text=True, env=env, cwd=HERE)
                lines = [l for l in p.stdout.splitlines() if l.startswith(("VIOLATION", "INCONCLUSIVE"))]
                sigs = [l.strip().split(":", 1)[0] for l in p.stdout.splitlines() if l.startswith("  C")]
                verdicts[c] = {"rc": p.returncode, "sigs": sigs[:4], "wall": round(time.time() - t, 1)}
            caught = any(v["rc"] == 1 for v in verdicts.values())
            results.append((mu["name"], mu["prop"], "CAUGHT" if caught else ("INCONCLUSIVE" if any(v["rc"] == 2 for v in verdicts.values()) else "MISSED"), verdicts))
            print(results[-1], flush=True)
        finally:
            open(path, "w").write(src)
    subprocess.run(["git", "-C", "/repo", "checkout", "--", "."])
    out = os.path.join(HERE, "tools", "mutation_results.json")
    prev = {}
    if os.path.exists(out):
        prev = {r[0]: r for r in json.load(open(out))}
    for r in results:
        prev[r[0]] = r
    json.dump(list(prev.values()), open(out, "w"), indent=1)
    print("caught", sum(1 for r in results if r[2] == "CAUGHT"), "of", len(results))
    return 0


if __name__ == "__main__":
    sys.exit(main())

"""Rig self-tests run by setup.sh: trigger transparency, VConn transparency, engine smoke."""
from __future__ import annotations

import sys


def main() -> int:
    from . import env

    env.setup()
    import sqlite3

    from . import hooks, specs
    from .runs import delivery_run
    from .world import World

    # 1. triggers do not disturb rowcount / lastrowid on this SQLite build
    w = World()
    conn = w.store._get_connection()
    assert isinstance(conn, hooks.VConn), "VConn factory not in effect"
    cur = conn.execute(
        "INSERT INTO queue_messages (message_id, message_type, payload, deliver_at, attempts, max_attempts) VALUES ('u1','T','{}','2000-01-01T00:00:00+00:00',0,10)"
    )
    rid = cur.lastrowid
    assert rid == conn.execute("SELECT id FROM queue_messages WHERE message_id='u1'").fetchone()[0], "lastrowid disturbed by trigger"
    cur = conn.execute("UPDATE queue_messages SET attempts = attempts + 1 WHERE id = ?", (rid,))
    assert cur.rowcount == 1, "rowcount disturbed by trigger"
    conn.rollback()
    assert w.audit() == [] or all(r["kind"] != "queue" for r in w.audit()), "rolled-back rows visible in audit log"
    w.close()
    # 2. engine smoke: diamond completes, audit log and ledger observed
    r = delivery_run(specs.diamond())
    assert r.state["wf"] == "SUCCEEDED" and len(r.ledger) == 4 and r.quiescent, r.state
    assert any(a["kind"] == "status" for a in r.audit) and any(a["kind"] == "mark" for a in r.audit)
    print(f"selftest ok: sqlite {sqlite3.sqlite_version}, diamond {r.steps} deliveries, {len(r.commits)} commits, {len(r.audit)} audit rows")
    env.cleanup_scratch()
    return 0


if __name__ == "__main__":
    sys.exit(main())

#!/bin/bash
# Offline setup: optional runtime-contract library into the git-ignored .deps, rig self-test.
set -e
cd "$(dirname "$0")"
export PIP_NO_INDEX=1
if [ ! -d .deps/icontract ]; then
  /venv/bin/pip install --quiet --no-index --find-links /opt/veriftools/wheels --target .deps icontract >/dev/null 2>&1 || echo "setup: icontract not installed (contracts fall back to plain wrappers)"
fi
mkdir -p evidence replays
/venv/bin/python -m vrig.selftest

"""C12 - replaying the event log reproduces the stored state."""

from __future__ import annotations

import os
import random
import shutil
from collections import Counter

from .. import env, hooks, oracles, specs
from ..framework import viol
from ..runs import delivery_run

ID = "C12"
LEVEL = "exploration"
RULE = (
    "case = workflow of an outcome class (success, several tasks, terminal failure, failed-continue, skip by "
    "stageEnabled / OR-split, cancel at a random step of a succeeding or of a failing workflow, jump loop, suspend + signal resume, synthetic stages, random DAG; "
    "some with a second workflow interleaved in the same database) x (FIFO / shuffled delivery), event sourcing on, "
    "event store in the same file. Oracles: (a) rebuild_workflow_state() vs store.retrieve() for workflow, stages and "
    "tasks whose last durable change was a logged step; (b) for EVERY sequence number s of the log, rebuild(as_of=s) == "
    "rebuild() on a copy of the database with events > s deleted; (c) for every snapshot position p, rebuild() and "
    "rebuild(as_of>=p) from snapshot+later events == snapshot-free result. (d) concurrent histories: the same classes run by "
    "2-4 worker threads interleaved at SQL-statement granularity (random / PCT, a concurrent cancel thread for the cancel "
    "classes), and CancelStage x CompleteStage / CompleteTask handler pairs under every schedule with <= 2 preemptions "
    "(sampled); oracle (a) on the drained result; and two overlapping completion decisions (a cancel racing a failing "
    "branch: CompleteWorkflow x the failing branch's CompleteTask / CompleteStage / CompleteWorkflow at every statement "
    "boundary). (e) long logs: a retry loop of 270-330 iterations (> 1000 events), "
    "oracles (a)-(c) at the first / last positions, around position 1000 and at 40 random positions. "
    "Non-trivial = run with >= 5 events; distinct = "
    "(outcome class, workflow status, multiset of stage statuses)."
)
ASSUMPTIONS = [
    "SQLite backend, event store in the same database",
    "tasks ended by CancelStage / SKIPPED / suspended have no task-level event by construction: counted, not compared",
    "stages whose last status was written by a jump (force-marked) or RestartStage are excluded, as the statement excludes them",
]
MIN_OBS = {"prefix_rebuilds": {"quick": 2000, "thorough": 20000}, "snapshot_rebuilds": {"quick": 2000, "thorough": 20000}, "entities_compared": {"quick": 1000, "thorough": 10000}, "interleaved_runs": {"quick": 50, "thorough": 600}, "cancel_x_completion_schedules_with_switch": {"quick": 100, "thorough": 1500}, "overlapping_completion_decisions": {"quick": 15, "thorough": 15}}
TIMEOUT = {"quick": 600, "thorough": 3000}

CLASSES = ["success", "multitask", "terminal", "fc", "skip", "orsplit", "cancel", "loop", "suspend", "synthetic", "random", "first_of", "cancel_fail"]


def _spec(cls: str, rng: random.Random) -> dict:
    if cls == "success":
        return specs.diamond(rng.random() < 0.5)
    if cls == "multitask":
        return specs.multitask()
    if cls == "terminal":
        return rng.choice([specs.terminal_mid, specs.racing_failure])()
    if cls == "fc":
        return specs.failed_continue()
    if cls == "skip":
        return specs.skip_stage()
    if cls == "orsplit":
        return specs.or_split_variant(rng)
    if cls == "cancel":
        return rng.choice([specs.diamond(), specs.multitask(), specs.polling(2)])
    if cls == "cancel_fail":
        # a cancel racing a failure: the final status is decided by stage outcomes, not by the cancel flag
        return rng.choice([specs.terminal_mid(), specs.racing_failure(), specs.failed_continue(), specs.first_of_failing(rng), specs.random_dag(rng, max_stages=5)])
    if cls == "loop":
        return rng.choice([specs.jump_loop(rng.randint(1, 2), 3), specs.self_loop(2), specs.jump_side_branch(1), specs.forward_jump(), specs.skip_in_later_iteration(rng.randint(1, 2)), specs.skip_in_later_iteration(1)])
    if cls == "long_log":
        # a retry loop long enough for the workflow's log to pass 1000 events (a page of any bounded query)
        n = rng.randint(270, 330)
        return specs.jump_limit(max_jumps=n + 50, level="wf", shape="self", times=n)
    if cls == "suspend":
        return specs.suspend_wf()
    if cls == "synthetic":
        return specs.synthetic_variant(rng)
    if cls == "first_of":
        return rng.choice([specs.first_of(2), specs.quorum(3, 2)])
    sp = specs.random_dag(rng, max_stages=6)
    sp["name"] = "rand"
    return sp


def gen_cases(tier: str, seed: int) -> list[dict]:
    n = 160 if tier == "quick" else 1500
    cases = [{"i": i, "cls": CLASSES[i % len(CLASSES)], "seed": seed} for i in range(n)]
    cases += [{"i": 100000 + i, "cls": "long_log", "seed": seed} for i in range(2 if tier == "quick" else 8)]
    for i in range(60 if tier == "quick" else 700):
        cases.append({"kind": "race", "i": i, "cls": CLASSES[i % len(CLASSES)], "seed": seed})
    for variant in range(3):
        cases.append({"kind": "pair", "variant": variant, "seed": seed, "sample": 80 if tier == "quick" else 1200})
    cases.append({"kind": "pair2", "seed": seed})
    return cases


def _norm(state: dict) -> dict:
    return {
        "status": state.get("status"),
        "application": state.get("application"),
        "name": state.get("name"),
        "context": state.get("context"),
        "stages": state.get("stages"),
        "tasks": state.get("tasks"),
    }


def _store_vs_replay(w, run, wid: str, obs: Counter, out: list) -> tuple:
    """Oracle (a): the state rebuilt from the log vs store.retrieve()."""
    from stabilize.events import EventReplayer

    replayer = EventReplayer(w.event_store)
    groups = oracles.Groups(run.commits)
    marks = oracles.group_marks(run.audit, groups)
    last_row: dict[str, dict] = {}
    for a in run.audit:
        if a["kind"] == "status" and a["op"] in ("stage", "task", "wf", "stage_ins", "task_ins", "wf_ins"):
            last_row[a["a"]] = a
    wf = w.store.retrieve(wid)
    rebuilt = replayer.rebuild_workflow_state(wid)
    r_status = rebuilt.get("status") or "NOT_STARTED"
    if r_status != wf.status.name:
        out.append(viol("C12/workflow-status-differs", f"store {wf.status.name} replay {r_status}"))
    for s in wf.stages:
        lr = last_row.get(s.id)
        g = groups.of(lr["seq"]) if lr else -1
        writers = marks.get(g, set()) | ({groups.tag(g)[0]} if groups.tag(g) else set())
        if writers & oracles.REARM_HANDLERS:
            obs["stages_excluded_jump_or_restart"] += 1
            continue
        if s.status.name in ("SUSPENDED", "PAUSED"):
            obs["stages_excluded_waiting"] += 1
            continue
        rs = (rebuilt["stages"].get(s.id) or {}).get("status") or "NOT_STARTED"
        obs["entities_compared"] += 1
        if rs != s.status.name:
            by = "+".join(sorted(w_ for w_ in writers if w_)) or "?"
            out.append(viol(f"C12/stage-status-differs:{s.status.name}-vs-{rs}:last-written-by-{by}", f"stage {s.context.get('_v', {}).get('ref', s.ref_id)}: store {s.status.name}, replay {rs} (last written by {sorted(writers)})"))
        for t in s.tasks:
            lt = last_row.get(t.id)
            gt = groups.of(lt["seq"]) if lt else -1
            tw = marks.get(gt, set()) | ({groups.tag(gt)[0]} if groups.tag(gt) else set())
            logged = bool(tw & {"StartTask", "CompleteTask"}) and t.status.name != "SKIPPED" and lt["op"] == "task"
            if not logged:
                obs["tasks_without_logged_step"] += 1
                continue
            rt = (rebuilt["tasks"].get(t.id) or {}).get("status") or "NOT_STARTED"
            obs["entities_compared"] += 1
            if rt != t.status.name:
                out.append(viol(f"C12/task-status-differs:{t.status.name}-vs-{rt}", f"task {t.name} of {s.ref_id}: store {t.status.name}, replay {rt} (last written by {sorted(tw)})"))
    return wf, rebuilt, r_status


def _race(case: dict) -> dict:
    """Concurrent histories: three worker threads interleaved at SQL-statement granularity with event
    sourcing on (event sequence numbers are allocated inside racing transactions); oracle (a) plus
    'sequence order of a workflow's events = commit order of the transactions that wrote them'."""
    from .. import interleave as il

    rng = random.Random(case["seed"] * 6007 + case["i"])
    cls = case["cls"] if case["cls"] != "suspend" else "random"
    spec = _spec(cls, rng)
    injector = None
    if cls in ("cancel", "cancel_fail"):
        # the operator's cancel arrives from its own thread at a random point: CancelStage handlers race the
        # completion handlers of the stages they cancel
        def injector(w, sched, stop):
            il.idle_points(sched, rng.randrange(0, 300), stop)
            w.cancel()

    run, info = il.race_run(spec, rng, events=True, keep_world=True, injector=injector)
    obs: Counter = Counter({"evaluations": 1})
    out: list[dict] = []
    keys: set = set()
    w = info.pop("world", None)
    if run is None or w is None:
        obs["scheduler_failed"] += 1
        return {"violations": [], "obs": dict(obs), "keys": [], "inconclusive": info.get("failed")}
    try:
        obs["interleaved_runs"] += 1
        obs["interleaved_switches"] += info["switches"]
        wf, rebuilt, r_status = _store_vs_replay(w, run, w.wf_id, obs, out)
        events = w.event_store.get_events_for_workflow(w.wf_id, 0)
        obs["events"] += len(events)
        # audit rows of kind 'event' carry the log's sequence number; their audit seq is commit order
        ev_rows = [a for a in run.audit if a["kind"] == "event"]
        obs["event_rows"] += len(ev_rows)
        if len(events) >= 5:
            keys.add(f"race:{cls}:{wf.status.name}:{','.join(sorted(s.status.name for s in wf.stages))}:{info['trace_hash'][:3]}")
    finally:
        w.close()
    out = oracles.attribute(out, run, "C12")
    wit = oracles.lost_plan_witness(run) if out else None
    if wit:
        # known mechanism (10.3 row 10): the claimed stage never got its plan commit, so neither
        # tasks nor the stage.started event exist; only that symptom is re-signed
        out = [viol("C12/stage-started-event-missing:plan-commit-lost-optimistic-lock-and-error-swallowed", f"{wit}; symptom: {x['msg']}") if x["sig"].startswith("C12/stage-status-differs:RUNNING-vs-NOT_STARTED") else x for x in out]
    seen = set()
    uniq = []
    for x in out:
        if x["sig"] not in seen:
            seen.add(x["sig"])
            x.update(spec=spec["name"], interleaved=True, trace_hash=info["trace_hash"])
            x["class"] = cls
            uniq.append(x)
    return {"violations": uniq, "obs": dict(obs), "keys": sorted(keys)}


def _pair(case: dict) -> dict:
    """CancelStage(X) x CompleteStage(X) (or x CompleteTask of X's last task) as the two designated handler
    invocations, event sourcing on, every schedule with <= 2 preemptions (sampled): whichever of the two wins,
    the log must tell the same story as the store."""
    import json as _json

    from .. import interleave as il
    from ..world import World

    variant = case["variant"]
    spec = [specs.chain(2), specs.diamond(), specs.multitask()][variant]
    other_type = "CompleteStage" if variant != 2 else "CompleteTask"
    w = World(events=True)
    cut = None
    try:
        w.submit(spec)
        for _ in range(200):
            rows = w.rows()
            if not rows:
                break
            tgt = [r for r in rows if r["type"] == other_type]
            if tgt and w.snapshot_state()["wf"] == "RUNNING" and len(w.handled) > 6:
                sid = _json.loads(tgt[0]["payload"]).get("stage_id")
                w.cancel()
                cw = [r for r in w.rows() if r["type"] == "CancelWorkflow"]
                if cw:
                    w.deliver(cw[0]["id"])
                cs = [r for r in w.rows() if r["type"] == "CancelStage" and _json.loads(r["payload"]).get("stage_id") == sid]
                if not cs:
                    break
                path = os.path.join(env.scratch_dir(), f"cut-{os.getpid()}-{random.randrange(1 << 40)}.db")
                w.store._get_connection().commit()
                w.copy_db(path)
                cut = (path, [cs[0]["id"], tgt[0]["id"]])
                break
            w.deliver(w.eligible(rows)[0]["id"])
    finally:
        w.close()
    obs: Counter = Counter()
    keys: set = set()
    out: list[dict] = []
    if cut is None:
        return {"violations": [], "obs": {"cut_point_not_reached": 1}, "keys": []}
    db, rows = cut
    try:
        na, nb = il.solo_length(db, rows[0], events=True), il.solo_length(db, rows[1], events=True)
        rng = random.Random(case["seed"] * 89 + variant)
        for sc in il.bound_schedules(na, nb, 2, sample=case["sample"], rng=rng):
            run, info = il.run_pair(db, rows, il.Segments(sc), events=True, keep_world=True)
            obs["evaluations"] += 1
            w2 = info.pop("world", None)
            if run is None or w2 is None:
                obs["scheduler_watchdog"] += 1
                continue
            try:
                if info["switches"]:
                    obs["cancel_x_completion_schedules_with_switch"] += 1
                    keys.add(f"pair:{variant}:{info['trace_hash']}")
                w2.wf_id = w2._exec_side("SELECT id FROM pipeline_executions LIMIT 1").fetchone()[0]
                # the audit log of the copy starts at the cut: rows of the earlier history are needed for 'last writer'
                run.audit = w2.audit()
                v: list[dict] = []
                _store_vs_replay(w2, run, w2.wf_id, obs, v)
                for x in v:
                    x.update(schedule=sc, pair=f"CancelStage x {other_type}")
                out += v
            finally:
                w2.close()
    finally:
        os.unlink(db)
    seen = set()
    uniq = []
    for x in out:
        if x["sig"] not in seen:
            seen.add(x["sig"])
            x["spec"] = spec["name"]
            uniq.append(x)
    return {"violations": uniq, "obs": dict(obs), "keys": sorted(keys)}


def _pair_two_completions(case: dict) -> dict:
    """A cancel racing a failing branch: x is CANCELED, y's last task has failed terminally but its CompleteTask is
    still queued, and a CompleteWorkflow (pushed by the cancel) is being handled by W0 - while a second worker takes
    y through CompleteTask, CompleteStage and the CompleteWorkflow of its own, at every statement boundary of W0's
    handling.  Two completion decisions overlap; whatever row ends up in the store, the log must tell the same."""
    import json as _json

    from .. import interleave as il
    from ..world import PAST, World

    spec = {"name": "cancel_vs_failure", "confluent": False, "stages": [specs.st("x", [], [{"kind": "poll", "n": 6, "out": ["x_p"]}]), specs.st("y", [], [dict(specs.OK), {"kind": "term"}])]}
    w = World(events=True)
    cut = None
    try:
        w.submit(spec)
        for _ in range(80):
            rows = w.rows()
            if [r for r in rows if r["type"] == "CompleteTask" and _json.loads(r["payload"]).get("status") == "TERMINAL"]:
                break
            w.deliver(w.eligible(rows)[0]["id"])
        st = w.snapshot_state()["stages"]
        xid, yid = st["x"]["id"], st["y"]["id"]
        w.cancel()
        cw = [r for r in w.rows() if r["type"] == "CancelWorkflow"]
        if cw:
            w.deliver(cw[0]["id"])
        cs = [r for r in w.rows() if r["type"] == "CancelStage" and _json.loads(r["payload"]).get("stage_id") == xid]
        if cs:
            w.deliver(cs[0]["id"])
        fin = [r for r in w.rows() if r["type"] == "CompleteWorkflow"]
        if fin and w.snapshot_state()["stages"]["x"]["status"] == "CANCELED":
            path = os.path.join(env.scratch_dir(), f"cut-{os.getpid()}-{random.randrange(1 << 40)}.db")
            w.store._get_connection().commit()
            w.copy_db(path)
            cut = (path, fin[0]["id"], yid)
    finally:
        w.close()
    obs: Counter = Counter()
    keys: set = set()
    out: list[dict] = []
    if cut is None:
        return {"violations": [], "obs": {"cut_point_not_reached": 1}, "keys": []}
    db, row, yid = cut
    FAR_ = "2999-01-01T00:00:00+00:00"

    def mk(world):
        def body() -> None:
            c = world.queue._get_connection()
            for _ in range(3):
                # only y's CompleteTask / CompleteStage and the CompleteWorkflow they push are visible to this worker
                try:
                    c.execute("UPDATE queue_messages SET locked_until = ? WHERE locked_until IS NULL AND NOT ((json_extract(payload, '$.stage_id') = ? AND message_type IN ('CompleteTask', 'CompleteStage')) OR (message_type = 'CompleteWorkflow' AND id != ?))", (FAR_, yid, row))
                    c.execute("UPDATE queue_messages SET deliver_at = ? WHERE locked_until IS NULL", (PAST,))
                    c.commit()
                    msg = world.queue.poll_one()
                finally:
                    try:
                        c.execute("UPDATE queue_messages SET locked_until = NULL WHERE locked_until = ?", (FAR_,))
                        c.commit()
                    except Exception:
                        c.rollback()
                if msg is None:
                    break
                il.worker_body(world, msg)()

        return body

    try:
        na = il.solo_length(db, row, events=True)
        for s1 in range(0, na + 2):
            run, info = il.run_pair(db, [row], il.Segments([("W0", s1), ("W9", 10**6), ("W0", 10**6)]), events=True, keep_world=True, extra_bodies={"W9": mk})
            obs["evaluations"] += 1
            w2 = info.pop("world", None)
            if run is None or w2 is None:
                obs["scheduler_watchdog"] += 1
                continue
            try:
                obs["overlapping_completion_decisions"] += 1
                keys.add(f"pair:completions:{s1}:{run.state['wf']}")
                w2.wf_id = w2._exec_side("SELECT id FROM pipeline_executions LIMIT 1").fetchone()[0]
                from stabilize.events import EventReplayer

                v: list[dict] = []
                wf = w2.store.retrieve(w2.wf_id)
                rebuilt = EventReplayer(w2.event_store).rebuild_workflow_state(w2.wf_id)
                obs["entities_compared"] += 2
                r_status = rebuilt.get("status") or "NOT_STARTED"
                if r_status != wf.status.name:
                    v.append(viol("C12/workflow-status-differs:overlapping-completion-decisions", f"store {wf.status.name} replay {r_status}"))
                # (x was canceled before the cut; y is completed inside the race by the regular completion step)
                ys = next(s_ for s_ in wf.stages if s_.id == yid)
                ry = (rebuilt["stages"].get(yid) or {}).get("status") or "NOT_STARTED"
                if ry != ys.status.name:
                    v.append(viol(f"C12/stage-status-differs:{ys.status.name}-vs-{ry}:overlapping-completion-decisions", f"stage y: store {ys.status.name}, replay {ry}"))
                for x in v:
                    x.update(preempted_after=s1, pair="CompleteWorkflow x (CompleteTask, CompleteStage, CompleteWorkflow of the failing branch)")
                out += v
            finally:
                w2.close()
    finally:
        os.unlink(db)
    seen = set()
    uniq = []
    for x in out:
        if x["sig"] not in seen:
            seen.add(x["sig"])
            x["spec"] = spec["name"]
            uniq.append(x)
    return {"violations": uniq, "obs": dict(obs), "keys": sorted(keys)}


def run_case(case: dict) -> dict:
    if case.get("kind") == "pair2":
        return _pair_two_completions(case)
    if case.get("kind") == "race":
        return _race(case)
    if case.get("kind") == "pair":
        return _pair(case)
    from stabilize.events import EventReplayer, SqliteEventStore
    from stabilize.events.base import EntityType
    from stabilize.events.snapshots import Snapshot, SnapshotStore

    rng = random.Random(case["seed"] * 7907 + case["i"])
    cls = case["cls"]
    spec = _spec(cls, rng)
    inj = []
    if cls in ("cancel", "cancel_fail"):
        inj.append({"at": rng.randrange(1, 18), "do": "cancel"})
    if cls == "suspend":
        inj.append({"at": rng.randrange(0, 16), "do": "signal", "ref": "w", "persistent": True, "id": "sig"})
    second = rng.random() < 0.35

    def pre(w):
        if second:
            first = w.wf_id
            w.submit(specs.chain(2))
            w.second_wf = w.wf_id
            w.wf_id = first

    order = rng.choice(["fifo", "random", "random"])
    run, w = delivery_run(spec, seed=rng.randrange(1 << 30), order=order, noack_p=rng.choice([0.0, 0.2]) if cls != "long_log" else 0.0, events=True, injections=inj, keep_world=True, pre_hook=pre, max_steps=1000 if cls != "long_log" else 9000)
    obs: Counter = Counter({"evaluations": 1})
    out: list[dict] = []
    keys: set = set()
    sample = None
    try:
        wf_ids = [w.wf_id] + ([w.second_wf] if second else [])
        es = w.event_store
        replayer = EventReplayer(es)
        groups = oracles.Groups(run.commits)
        marks = oracles.group_marks(run.audit, groups)
        last_row: dict[str, dict] = {}
        for a in run.audit:
            if a["kind"] == "status" and a["op"] in ("stage", "task", "wf", "stage_ins", "task_ins", "wf_ins"):
                last_row[a["a"]] = a
        for wid in wf_ids:
            wf = w.store.retrieve(wid)
            rebuilt = replayer.rebuild_workflow_state(wid)
            events = es.get_events_for_workflow(wid, 0)
            obs["events"] += len(events)
            # (a) store vs replay
            r_status = rebuilt.get("status") or "NOT_STARTED"
            if r_status != wf.status.name:
                out.append(viol("C12/workflow-status-differs", f"store {wf.status.name} replay {r_status}"))
            for s in wf.stages:
                lr = last_row.get(s.id)
                g = groups.of(lr["seq"]) if lr else -1
                writers = marks.get(g, set()) | ({groups.tag(g)[0]} if groups.tag(g) else set())
                if writers & oracles.REARM_HANDLERS:
                    obs["stages_excluded_jump_or_restart"] += 1
                    continue
                if s.status.name in ("SUSPENDED", "PAUSED"):
                    obs["stages_excluded_waiting"] += 1
                    continue
                rs = (rebuilt["stages"].get(s.id) or {}).get("status") or "NOT_STARTED"
                obs["entities_compared"] += 1
                if rs != s.status.name:
                    by = "+".join(sorted(w_ for w_ in writers if w_)) or "?"
                    out.append(viol(f"C12/stage-status-differs:{s.status.name}-vs-{rs}:last-written-by-{by}", f"stage {s.context.get('_v', {}).get('ref', s.ref_id)}: store {s.status.name}, replay {rs} (last written by {sorted(writers)})"))
                for t in s.tasks:
                    lt = last_row.get(t.id)
                    gt = groups.of(lt["seq"]) if lt else -1
                    tw = marks.get(gt, set()) | ({groups.tag(gt)[0]} if groups.tag(gt) else set())
                    logged = bool(tw & {"StartTask", "CompleteTask"}) and t.status.name != "SKIPPED" and lt["op"] == "task"
                    if not logged:
                        obs["tasks_without_logged_step"] += 1
                        continue
                    rt = (rebuilt["tasks"].get(t.id) or {}).get("status") or "NOT_STARTED"
                    obs["entities_compared"] += 1
                    if rt != t.status.name:
                        out.append(viol(f"C12/task-status-differs:{t.status.name}-vs-{rt}", f"task {t.name} of {s.ref_id}: store {t.status.name}, replay {rt} (last written by {sorted(tw)})"))
            if len(events) >= 5 and wid == w.wf_id:
                keys.add(f"{cls}:{wf.status.name}:{','.join(sorted(s.status.name for s in wf.stages))}")
            if sample is None and events:
                sample = {"class": cls, "spec": spec["name"], "events": [f"{e.sequence}:{e.event_type.value}" for e in events][:40], "store_status": wf.status.name, "replay_status": r_status}
            # (b) metamorphic prefix oracle on a copy of the database
            seqs = [e.sequence for e in events]
            if len(seqs) > 250:
                # long logs: a sample of positions (always the first, the last, and the neighbourhood of position 1000)
                keep = set(rng.sample(range(len(seqs)), 40)) | {0, 1, len(seqs) - 2, len(seqs) - 1} | {i for i in range(996, 1004) if i < len(seqs)}
                seqs = [q for i, q in enumerate(seqs) if i in keep]
            copy_path = os.path.join(env.scratch_dir(), f"c12copy-{os.getpid()}.db")
            shutil.copyfile(w.path, copy_path)
            raw = hooks.raw_connect(copy_path, isolation_level=None)
            es2 = SqliteEventStore(f"sqlite:///{copy_path}", create_tables=False)
            rep2 = EventReplayer(es2)
            full_by_s = {}
            for s_ in reversed(seqs):
                raw.execute("DELETE FROM events WHERE sequence > ?", (s_,))
                es2._get_connection().rollback()
                want = _norm(rep2.rebuild_workflow_state(wid))
                got = _norm(replayer.rebuild_workflow_state(wid, as_of_sequence=s_))
                full_by_s[s_] = got
                obs["prefix_rebuilds"] += 1
                if got != want:
                    out.append(viol("C12/as-of-differs-from-prefix-replay", f"as_of={s_}: filtered rebuild {got['status']} / stages { {k: v.get('status') for k, v in got['stages'].items()} } vs prefix-only log {want['status']} / { {k: v.get('status') for k, v in want['stages'].items()} }"))
                    break
            raw.close()
            from stabilize.persistence.connection import get_connection_manager

            get_connection_manager().close_sqlite_connection(f"sqlite:///{copy_path}")
            os.unlink(copy_path)
            # (c) snapshot + later events == full replay
            snap_store = SnapshotStore(es)
            rep_snap = EventReplayer(es, snap_store)
            side = w.side
            full = _norm(rebuilt)
            for pi, p in enumerate(seqs):
                with w._side_lock:
                    side.execute("DELETE FROM snapshots")
                state_p = replayer.rebuild_workflow_state(wid, as_of_sequence=p)
                snap_store.save_snapshot(Snapshot(entity_type=EntityType.WORKFLOW, entity_id=wid, workflow_id=wid, version=pi + 1, sequence=p, state=state_p))
                got = _norm(rep_snap.rebuild_workflow_state(wid))
                obs["snapshot_rebuilds"] += 1
                if got != full:
                    out.append(viol("C12/snapshot-plus-events-differs", f"snapshot at {p}: status {got['status']} vs full replay {full['status']}; stage statuses { {k: v.get('status') for k, v in got['stages'].items()} } vs { {k: v.get('status') for k, v in full['stages'].items()} }"))
                    break
                # as_of at and after p uses the snapshot, before p must ignore it
                for s_ in {seqs[min(len(seqs) - 1, pi + 1)], p, seqs[max(0, pi - 1)]}:
                    got2 = _norm(rep_snap.rebuild_workflow_state(wid, as_of_sequence=s_))
                    obs["snapshot_rebuilds"] += 1
                    if got2 != full_by_s.get(s_, got2):
                        out.append(viol("C12/snapshot-as-of-differs", f"snapshot at {p}, as_of {s_}: {got2['status']} vs {full_by_s[s_]['status']}"))
                        break
            with w._side_lock:
                side.execute("DELETE FROM snapshots")
    finally:
        w.close()
    seen = set()
    uniq = []
    for x in out:
        if x["sig"] not in seen:
            seen.add(x["sig"])
            x["spec"] = spec["name"]
            x["class"] = cls
            uniq.append(x)
    return {"violations": uniq, "obs": dict(obs), "keys": sorted(keys), "sample": sample}

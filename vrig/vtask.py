"""Scripted tasks, stage builders and the execution ledger.

One task implementation, `VTask(idx)`, registered as vtask0..vtask3.  What it
does is a pure function of *durable* data: the script in stage.context["_v"],
counters the engine itself persisted in the stage context, and the harness's own
append-only ledger.  Every call appends one record to the ledger of the current
World (World.ledger, optionally mirrored to a file for real-kill children).

Behaviour dict (one per task, in stage.context["_v"]["t"][idx]):
  kind : ok | term | fc | stop | cancel | poll | transient | raise | jump | suspend | skip
  n    : poll -> number of RUNNING results before success
         transient -> number of transient failures before success (-1 = always)
  cu   : transient -> attach context_update (progress counter) to the error
  out  : scalar output keys   lout : list output keys   cout: context keys
  to, times : jump target ref and number of jumps requested (uses the durable _jump_count)
  then : behaviour after the scripted part is over (default ok)
  sig  : suspend -> expected signal id (any if None)
"""

from __future__ import annotations

import copy
import json
import threading
from typing import Any

from stabilize import StageExecution, Task, TaskResult
from stabilize.errors import TransientError
from stabilize.models.stage import SyntheticStageOwner
from stabilize.models.task import TaskExecution
from stabilize.stages.builder import StageDefinitionBuilder, get_default_factory

MAX_TASKS = 4

# the World currently driving the engine in this process (set by World.activate)
_current: Any = None
_lock = threading.Lock()


def set_world(world: Any) -> None:
    global _current
    _current = world


def jcopy(x: Any) -> Any:
    return json.loads(json.dumps(x, default=str))


def strip_ord(v: Any) -> Any:
    """Canonical form of tagged values: drop the '#<ordinal>' suffix."""
    if isinstance(v, str) and "#" in v and "@" in v:
        return v.split("#", 1)[0]
    if isinstance(v, list):
        return [strip_ord(i) for i in v]
    if isinstance(v, dict):
        return {k: strip_ord(i) for k, i in v.items()}
    return v


class VTask(Task):
    def __init__(self, idx: int = 0) -> None:
        self.idx = idx

    # ------------------------------------------------------------------
    def execute(self, stage: StageExecution) -> TaskResult:
        w = _current
        script = stage.context.get("_v") or {}
        ref = script.get("ref", stage.ref_id)
        behs = script.get("t") or []
        beh = behs[self.idx] if self.idx < len(behs) else {"kind": "ok"}
        rec = w.ledger_begin(stage, ref, self.idx) if w is not None else {"ord": 0, "iter": 0, "n": 0}
        try:
            res = self._run(stage, ref, beh, rec)
            rec["result"] = res.status.name + (":" + res.target_stage_ref_id if res.target_stage_ref_id else "")
            rec["outputs"] = jcopy(res.outputs)
            return res
        except BaseException as e:
            rec["result"] = "raise:" + type(e).__name__
            raise
        finally:
            if w is not None:
                w.ledger_end(rec)

    # ------------------------------------------------------------------
    def _outs(self, ref: str, beh: dict, rec: dict) -> tuple[dict, dict]:
        it, od = rec["iter"], rec["ord"]
        outputs: dict[str, Any] = {}
        for k in beh.get("out", []) or []:
            outputs[k] = f"{ref}.{k}@{it}#{od}"
        for k in beh.get("lout", []) or []:
            outputs[k] = [f"{ref}.{k}@{it}#{od}"]
        for k, v in (beh.get("raw") or {}).items():
            outputs[k] = v
        # outputs that differ per loop iteration (absent iteration = nothing produced)
        for k, v in ((beh.get("raw_by_iter") or {}).get(str(it)) or {}).items():
            outputs[k] = v
        ctx: dict[str, Any] = {}
        for k in beh.get("cout", []) or []:
            ctx[k] = f"{ref}.{k}@{it}#{od}"
        return outputs, ctx

    def _finish(self, ref: str, beh: dict, rec: dict, kind: str) -> TaskResult:
        outputs, ctx = self._outs(ref, beh, rec)
        if kind == "ok":
            return TaskResult.success(outputs=outputs, context=ctx)
        if kind == "term":
            return TaskResult.terminal("scripted terminal failure", context=ctx)
        if kind == "fc":
            return TaskResult.failed_continue("scripted failed-continue", outputs=outputs, context=ctx)
        if kind == "stop":
            return TaskResult.stopped(outputs=outputs)
        if kind == "cancel":
            return TaskResult.canceled(outputs=outputs)
        if kind == "skip":
            return TaskResult.skipped()
        if kind == "raise":
            raise RuntimeError("scripted permanent error")
        raise AssertionError(f"unknown kind {kind}")

    def _run(self, stage: StageExecution, ref: str, beh: dict, rec: dict) -> TaskResult:
        kind = beh.get("kind", "ok")
        then = beh.get("then", "ok")
        i = self.idx
        if kind in ("ok", "term", "fc", "stop", "cancel", "raise", "skip"):
            return self._finish(ref, beh, rec, kind)
        if kind == "poll":
            key = f"_p{i}"
            c = int(stage.context.get(key, 0) or 0)
            rec["counter"] = c
            if c < int(beh.get("n", 1)):
                return TaskResult.running(context={key: c + 1, f"_pv{i}": f"{ref}.poll{i}@{rec['iter']}.{c + 1}"})
            return self._finish(ref, beh, rec, then)
        if kind == "transient":
            n = int(beh.get("n", 1))
            if beh.get("cu"):
                key = f"_x{i}"
                c = int(stage.context.get(key, 0) or 0)
                rec["counter"] = c
                if n < 0 or c < n:
                    raise TransientError(
                        f"scripted transient failure {c + 1}",
                        context_update={key: c + 1, f"_xv{i}": f"{ref}.try{i}@{rec['iter']}.{c + 1}"},
                    )
            else:
                c = rec["n"]  # earlier executions of this task in this iteration (ledger)
                rec["counter"] = c
                if n < 0 or c < n:
                    raise TransientError(f"scripted transient failure {c + 1}")
            return self._finish(ref, beh, rec, then)
        if kind == "script":
            # a scripted sequence of 'R' (still running, poll again) and 'T' (transient failure with
            # saved progress) steps, then the final outcome; the step index travels in the stage context
            key = f"_s{i}"
            c = int(stage.context.get(key, 0) or 0)
            rec["counter"] = c
            steps = beh.get("steps", "")
            if c < len(steps):
                upd = {key: c + 1, f"_sv{i}": f"{ref}.step{i}@{rec['iter']}.{c + 1}"}
                if steps[c] == "R":
                    return TaskResult.running(context=upd)
                raise TransientError(f"scripted transient failure at step {c + 1}", context_update=upd)
            return self._finish(ref, beh, rec, then)
        if kind == "jump":
            done = int(stage.context.get("_jump_count", 0) or 0)
            rec["counter"] = done
            if beh.get("every"):
                # a stage that asks to jump on every `every`-th of its own iterations (phase `phase`), for ever:
                # only the engine's limit ends such a loop
                go = rec["iter"] % int(beh["every"]) == int(beh.get("phase", 0))
            elif beh.get("to_seq"):
                # a controller that jumps to a different target on each of its own iterations, then finishes
                go = rec["iter"] < len(beh["to_seq"])
                if go:
                    beh = dict(beh, to=beh["to_seq"][rec["iter"]])
            elif beh.get("by_iter"):
                # decided by the stage's own iteration (number of times it was re-armed), independent of the
                # engine's _jump_count bookkeeping (which a jump also copies into its target stage)
                go = rec["iter"] < int(beh.get("times", 1))
            else:
                go = done < int(beh.get("times", 1)) and rec["iter"] >= int(beh.get("from_iter", 0))
            if go:
                outputs, ctx = self._outs(ref, beh, rec)
                if beh.get("echo_ctx"):
                    # a task that carries its state from iteration to iteration by echoing the context it received
                    # (engine bookkeeping keys included) plus its own counter
                    # (the harness's own script key "_v" is not the task's to hand on)
                    ctx = {**{k: v for k, v in jcopy(dict(stage.context)).items() if k != "_v"}, **ctx, "attempt": rec["iter"] + 1}
                return TaskResult.jump_to(beh["to"], context=ctx, outputs=outputs)
            return self._finish(ref, beh, rec, then)
        if kind == "suspend":
            data = stage.context.get("_signal_data")
            name = stage.context.get("_signal_name")
            rec["signal"] = jcopy(data) if data is not None else None
            rec["signal_name"] = name
            if int(beh.get("waits", 1)) > 1:
                # a gate that needs several signals: execution k of this task (0 = the first, unsignalled one) has
                # been resumed k times; it waits again until `waits` resumes happened
                k = rec["n"]
                rec["counter"] = k
                if k < int(beh["waits"]):
                    return TaskResult.suspend()
                outputs, ctx = self._outs(ref, beh, rec)
                return TaskResult.success(outputs=outputs, context=ctx)
            if name:
                outputs, ctx = self._outs(ref, beh, rec)
                outputs["sig_seen"] = jcopy(data)
                return TaskResult.success(outputs=outputs, context=ctx)
            return TaskResult.suspend()
        raise AssertionError(f"unknown kind {kind}")


def make_tasks(behs: list[dict]) -> list[TaskExecution]:
    n = len(behs)
    return [
        TaskExecution.create(name=f"t{i}", implementing_class=f"vskip{i}" if behs[i].get("kind") in ("disabled", "skippable") else f"vtask{i}", stage_start=(i == 0), stage_end=(i == n - 1))
        for i in range(n)
    ]


class VBuilder(StageDefinitionBuilder):
    """Builds tasks from the script (stage type 'vb') and, for type 'vs',
    synthetic before/after stages described by context['_v']['before'/'after']."""

    def __init__(self, type_name: str) -> None:
        self._type = type_name

    @property
    def type(self) -> str:
        return self._type

    def build_tasks(self, stage: StageExecution) -> list[TaskExecution]:
        script = stage.context.get("_v") or {}
        return make_tasks(script.get("t") or [])

    def _children(self, stage: StageExecution, graph: Any, which: str, owner: SyntheticStageOwner) -> None:
        script = stage.context.get("_v") or {}
        prev = None
        for j, child in enumerate(script.get(which) or []):
            cref = f"{script.get('ref', stage.ref_id)}<{which}{j}"
            s = StageExecution.create_synthetic(
                type="vb",
                name=cref,
                parent=stage,
                owner=owner,
                context={"_v": {"ref": cref, "t": child.get("t") or [{"kind": "ok"}]}, **(child.get("ctx") or {})},
            )
            if prev is None or not child.get("chain"):
                graph.add(s)
            else:
                graph.append(s)
            prev = s

    def before_stages(self, stage: StageExecution, graph: Any) -> None:
        if self._type == "vs":
            self._children(stage, graph, "before", SyntheticStageOwner.STAGE_BEFORE)

    def after_stages(self, stage: StageExecution, graph: Any) -> None:
        if self._type == "vs":
            self._children(stage, graph, "after", SyntheticStageOwner.STAGE_AFTER)

    def on_failure_stages(self, stage: StageExecution, graph: Any) -> None:
        if self._type == "vs":
            self._children(stage, graph, "onfail", SyntheticStageOwner.STAGE_AFTER)


def register_builders() -> None:
    f = get_default_factory()
    for t in ("vb", "vs"):
        f.register(VBuilder(t))


def _vskip_class():
    from stabilize.tasks.interface import SkippableTask

    class VSkip(SkippableTask):
        """A task the engine may skip: disabled when its scripted behaviour says kind == 'disabled'."""

        def __init__(self, idx: int = 0) -> None:
            self.idx = idx
            self._inner = VTask(idx)

        def is_enabled(self, stage: StageExecution) -> bool:
            behs = (stage.context.get("_v") or {}).get("t") or []
            beh = behs[self.idx] if self.idx < len(behs) else {}
            return beh.get("kind") != "disabled"

        def do_execute(self, stage: StageExecution) -> TaskResult:
            return self._inner.execute(stage)

    return VSkip


def make_registry() -> Any:
    from stabilize import TaskRegistry

    r = TaskRegistry()
    VSkip = _vskip_class()
    for i in range(MAX_TASKS):
        r.register(f"vtask{i}", VTask(i))
        r.register(f"vskip{i}", VSkip(i))
    return r


__all__ = ["VTask", "VBuilder", "make_registry", "register_builders", "set_world", "strip_ord", "jcopy", "make_tasks", "copy"]

"""C07 - concurrent writers never silently overwrite each other."""

from __future__ import annotations

import json
import os
import random
import threading
from collections import Counter

from .. import interleave as il
from .. import oracles, specs
from ..framework import viol
from ..runs import delivery_run
from . import c04

ID = "C07"
LEVEL = "exploration"
LEVEL_TEXT = "all interleavings with <= 2 preemptions of two read-modify-write operations (sampled for three writers), statement granularity; held on the interleavings produced"
RULE = (
    "API level: 2-3 threads each retrieve_stage -> modify (unique tag in context and outputs, optionally a task status) "
    "-> save through store.store_stage (plain, optionally with expected_phase) or store.transaction()+txn.store_stage, "
    "on a stage with task rows and on a stage without any (tasks built at planning time), with or without retry on fresh data, or a transaction that fails AFTER its store_stage succeeded and is retried with "
    "the same in-memory object (what execute_atomic does on a lock error); every schedule with <= 2 preemptions for two writers, seeded random schedules "
    "for three. Recorded history: (writer, attempt, version read, outcome, version after). Oracles: <= 1 success per "
    "base version; final version = initial + successes; the final row holds the tag of EVERY successful writer; every "
    "loser raised ConcurrencyError; nothing of a failed save ever becomes durable (if it left its implicit transaction "
    "open, the harness commits that connection as the next operation would, then looks for the loser's tag). Engine level: two upstream CompleteStage "
    "handlers updating one DISCRIMINATOR / N_OF_M join (_completed_branches must hold both), the same bookkeeping write x the "
    "StartStage handler planning that join, CancelStage x CompleteTask, a raising task's error-recording save x CancelStage. "
    "Serializability of every pair of co-enabled messages: at every step of a FIFO run of ten workflow shapes each pair of "
    "deliverable messages is handled by two workers under every one-preemption schedule (sampled in quick) plus a sample of "
    "two-preemption ones; after draining, statuses and per-task execution counts must equal those of one of the two "
    "sequential orders run from the same durable state. "
    "Non-trivial = schedule where both writers read before either wrote (same base version); distinct = trace hash."
)
ASSUMPTIONS = ["SQLite backend, busy timeout 0 under the cooperative scheduler", "statement-level interleavings"]
MIN_OBS = {"same_base_version_races": {"quick": 300, "thorough": 5000}, "conflicts_raised": {"quick": 300, "thorough": 5000}, "rolled_back_after_successful_store": {"quick": 100, "thorough": 1500}, "co_enabled_pair_schedules_with_switch": {"quick": 800, "thorough": 10000}}
TIMEOUT = {"quick": 800, "thorough": 3400}

MODES = ["plain", "plain_phase", "txn", "txn_phase", "plain_task", "txn_task", "txn_fault", "txn_commit_fault"]


class _Fault(Exception):
    """Injected failure after txn.store_stage inside the same transaction (what a lock error at the
    following push_message is to TransactionHelper.execute_atomic, which retries with the SAME object)."""


def gen_cases(tier: str, seed: int) -> list[dict]:
    cases = []
    chunks = 2 if tier == "quick" else 8
    for mode_a in MODES:
        for mode_b in MODES:
            if tier == "quick" and (MODES.index(mode_a) + MODES.index(mode_b)) % 2:
                continue
            for retry in (False, True):
                for c in range(chunks):
                    cases.append({"kind": "api2", "modes": [mode_a, mode_b], "retry": retry, "chunk": c, "chunks": chunks, "seed": seed, "sample": 60 if tier == "quick" else 1500})
    nt_modes = ["plain", "txn", "txn_phase", "txn_fault", "txn_commit_fault"]
    for mode_a in nt_modes:
        for mode_b in nt_modes:
            if tier == "quick" and (nt_modes.index(mode_a) + nt_modes.index(mode_b)) % 2:
                continue
            for retry in (False, True):
                cases.append({"kind": "api2", "modes": [mode_a, mode_b], "retry": retry, "chunk": 0, "chunks": 1, "seed": seed, "sample": 80 if tier == "quick" else 1500, "notasks": True})
    for i in range(10 if tier == "quick" else 80):
        cases.append({"kind": "api3", "i": i, "seed": seed, "runs": 25})
    stride = 3 if tier == "quick" else 1
    for sp in range(len(SERIAL_SPECS)):
        for phase in range(stride):
            cases.append({"kind": "serial_pairs", "spec": sp, "seed": seed, "stride": stride, "phase": phase, "sample": 6 if tier == "quick" else 30})
    for sp in (3, 4):
        cases.append({"kind": "engine", "pair": f"error_save_vs_cancel:{sp}", "chunk": 0, "chunks": 1, "seed": seed, "sample": 60 if tier == "quick" else 800})
    for pair in ("join_tracking:DISCRIMINATOR", "join_tracking:N_OF_M", "cancel_complete", "join_tracking_vs_plan:DISCRIMINATOR", "join_tracking_vs_plan:N_OF_M"):
        for c in range(chunks):
            cases.append({"kind": "engine", "pair": pair, "chunk": c, "chunks": chunks, "seed": seed, "sample": 100 if tier == "quick" else 2000})
    return cases


def _base_db(notasks: bool = False) -> tuple[str, str]:
    """A stored workflow with one RUNNING stage that has two tasks - or (notasks) one NOT_STARTED stage
    whose tasks are only built at planning time, i.e. a stage row without any task row (no per-task version
    guard can stand in for the stage's own)."""
    from ..world import World

    w = World()
    spec = {"name": "c07", "stages": [specs.st("s", [], [dict(specs.OK), dict(specs.OK)], **({"type": "vb"} if notasks else {}))]}
    w.submit(spec)
    # run it up to RUNNING with first task RUNNING (notasks: only StartWorkflow, the stage stays unplanned)
    for _ in range(1 if notasks else 3):
        rows = w.rows()
        w.deliver(rows[0]["id"])
    sid = w.snapshot_state()["stages"]["s"]["id"]
    path = os.path.join(il.env.scratch_dir(), f"c07-{os.getpid()}-{random.randrange(1 << 40)}.db")
    w.copy_db(path)
    w.close()
    return path, sid


def _writer(w, sid: str, i: int, mode: str, retry: bool, hist: list, tag_prefix: str = "w"):
    from stabilize.errors import ConcurrencyError
    from stabilize.models.status import WorkflowStatus

    def fault_body() -> None:
        # txn.store_stage succeeds, the transaction then fails and rolls back; the caller retries with the
        # SAME in-memory object (no re-read), as execute_atomic's lock-error retry does
        store = w.store
        stage = store.retrieve_stage(sid)
        v0 = stage.version
        tag = f"{tag_prefix}{i}"
        stage.context[tag] = f"{tag}@0"
        stage.outputs[tag] = f"{tag}@0"
        rec = {"writer": i, "attempt": 0, "mode": mode, "read_version": v0, "seq_before": w.max_seq()}
        try:
            if mode == "txn_commit_fault":
                # the failure hits the COMMIT itself (SQLITE_BUSY while taking the exclusive lock)
                import sqlite3

                conn = store._get_connection()

                def failing_commit():
                    del conn.commit
                    raise sqlite3.OperationalError("database is locked")

                conn.commit = failing_commit
                try:
                    with store.transaction(w.queue) as txn:
                        txn.store_stage(stage)
                    raise AssertionError("injected commit failure did not fire")
                except sqlite3.OperationalError:
                    raise _Fault()
                finally:
                    conn.__dict__.pop("commit", None)
            with store.transaction(w.queue) as txn:
                txn.store_stage(stage)
                raise _Fault()
        except _Fault:
            rec["outcome"] = "fault"
        except ConcurrencyError as e:
            rec["outcome"] = "conflict"
            rec["err"] = str(e)[:80]
        rec["version_after"] = stage.version
        rec["in_txn_after"] = bool(store._get_connection().in_transaction)
        hist.append(rec)
        if rec["outcome"] != "fault":
            return
        rec2 = {"writer": i, "attempt": 1, "mode": mode, "read_version": v0, "seq_before": w.max_seq(), "same_object_retry": True}
        try:
            with store.transaction(w.queue) as txn:
                txn.store_stage(stage)
            rec2["outcome"] = "ok"
        except ConcurrencyError as e:
            rec2["outcome"] = "conflict"
            rec2["err"] = str(e)[:80]
        except Exception as e:
            rec2["outcome"] = f"error:{type(e).__name__}:{e}"
        rec2["version_after"] = stage.version
        rec2["in_txn_after"] = bool(store._get_connection().in_transaction)
        hist.append(rec2)

    if mode in ("txn_fault", "txn_commit_fault"):
        return fault_body

    def body() -> None:
        store = w.store
        attempts = 3 if retry else 1
        for att in range(attempts):
            stage = store.retrieve_stage(sid)
            v0 = stage.version
            tv0 = [t.version for t in stage.tasks]
            tag = f"{tag_prefix}{i}"
            stage.context[tag] = f"{tag}@{att}"
            stage.outputs[tag] = f"{tag}@{att}"
            if mode.endswith("_task"):
                stage.tasks[1].task_exception_details = {"by": tag}
            rec = {"writer": i, "attempt": att, "mode": mode, "read_version": v0, "task_versions": tv0, "seq_before": w.max_seq()}
            try:
                phase = stage.status.name if "phase" in mode else None
                if mode.startswith("plain"):
                    store.store_stage(stage, expected_phase=phase) if phase else store.store_stage(stage)
                else:
                    with store.transaction(w.queue) as txn:
                        txn.store_stage(stage, expected_phase=phase) if phase else txn.store_stage(stage)
                rec["outcome"] = "ok"
                rec["version_after"] = stage.version
            except ConcurrencyError as e:
                rec["outcome"] = "conflict"
                rec["version_after"] = stage.version
                rec["err"] = str(e)[:80]
            except Exception as e:  # anything else is reported
                rec["outcome"] = f"error:{type(e).__name__}:{e}"
            conn = store._get_connection()
            rec["in_txn_after"] = bool(conn.in_transaction)
            if rec["in_txn_after"]:
                # the failed save left its implicit transaction open.  Do what the next unrelated
                # operation on this thread's connection would do - commit - so that anything the
                # failed save left pending becomes durable and the oracle can see it.
                rec["left_open"] = True
                conn.commit()
            hist.append(rec)
            if rec["outcome"] == "ok" or not retry:
                break

    return body


def api_oracle(w, sid: str, hist: list, v_init: int) -> tuple[list[dict], Counter]:
    out = []
    obs: Counter = Counter()
    row = w._exec_side("SELECT version, context, outputs, status FROM stage_executions WHERE id = ?", (sid,)).fetchone()
    final_v, ctx, outs = row[0], json.loads(row[1]), json.loads(row[2])
    oks = [h for h in hist if h["outcome"] == "ok"]
    by_base: Counter = Counter(h["read_version"] for h in oks)
    for base, n in by_base.items():
        if n > 1:
            out.append(viol("C07/two-saves-on-one-version", f"{n} successful saves based on version {base}: {[(h['writer'], h['mode']) for h in oks if h['read_version'] == base]}"))
    if final_v != v_init + len(oks):
        out.append(viol("C07/version-accounting", f"initial {v_init} + {len(oks)} successes != final {final_v}"))
    for h in oks:
        tag = f"w{h['writer']}"
        if tag not in ctx or tag not in outs:
            out.append(viol("C07/lost-update", f"writer {h['writer']} ({h['mode']}) reported success on version {h['read_version']} but its change is absent from the final row (context keys {sorted(k for k in ctx if k.startswith('w'))})"))
    for h in hist:
        if h["outcome"].startswith("error"):
            out.append(viol("C07/unexpected-error", h["outcome"][:200]))
        if h["outcome"] == "fault":
            obs["rolled_back_after_successful_store"] += 1
            if h["version_after"] != h["read_version"]:
                out.append(viol("C07/version-not-restored-after-rollback", f"in-memory version {h['version_after']} after the rolled-back transaction, row was read at {h['read_version']}: {h}"))
        if h["outcome"] == "conflict":
            obs["conflicts_raised"] += 1
            if h["mode"].startswith("txn") and h["version_after"] != h["read_version"]:
                out.append(viol("C07/version-not-restored-after-rollback", f"{h}"))
        if h.get("left_open"):
            # observation, not a violation: the statement does not promise a closed transaction;
            # what matters (checked below) is that nothing of the failed save becomes durable
            obs["failed_saves_that_left_transaction_open"] += 1
    # successes of losers must not be visible: tags of writers without any ok
    for h in hist:
        if h["outcome"] == "conflict" and not any(o["writer"] == h["writer"] for o in oks):
            tag = f"w{h['writer']}"
            if tag in ctx or tag in outs:
                out.append(viol("C07/failed-save-partially-durable", f"writer {h['writer']} never succeeded but {tag} is in the final row"))
    reads = [h["read_version"] for h in hist if h["attempt"] == 0]
    if len(reads) >= 2 and len(set(reads)) < len(reads):
        obs["same_base_version_races"] += 1
    return out, obs


def _api_run(db: str, sid: str, modes: list[str], retry: bool, policy) -> tuple[list[dict], Counter, dict]:
    il.prepare_env()
    w = il.copy_world(db)
    try:
        v_init = w._exec_side("SELECT version FROM stage_executions WHERE id = ?", (sid,)).fetchone()[0]
        hist: list = []
        sched = il.Scheduler(policy)
        w.commit_listeners.append(lambda world, idx, conn: sched.commit_event(conn))
        bodies = {f"W{i}": _writer(w, sid, i, m, retry, hist) for i, m in enumerate(modes)}
        sched.run(bodies)
        info = {"trace_hash": sched.trace_hash(), "switches": sched.switches, "lock_blocks": sched.lock_blocks, "failed": sched.failed, "errors": {k: str(v) for k, v in sched.errors.items()}, "steps": dict(sched.steps)}
        if sched.failed:
            return [], Counter({"scheduler_watchdog": 1}), info
        v, o = api_oracle(w, sid, hist, v_init)
        for name, e in sched.errors.items():
            v.append(viol("C07/unexpected-error", f"{name}: {e}"))
        info["history"] = hist
        return v, o, info
    finally:
        w.close()


def _api2(case: dict) -> dict:
    db, sid = _base_db(bool(case.get("notasks")))
    obs: Counter = Counter()
    keys: set = set()
    violations = []
    sample = None
    try:
        # solo lengths
        _, _, i0 = _api_run(db, sid, [case["modes"][0]], False, il.Segments([("W0", 10**6)]))
        _, _, i1 = _api_run(db, sid, [case["modes"][1]], False, il.Segments([("W0", 10**6)]))
        na, nb = i0["steps"].get("W0", 8), i1["steps"].get("W0", 8)
        if case["retry"]:
            na, nb = na * 2, nb * 2
        rng = random.Random(case["seed"] * 53 + hash(tuple(case["modes"])) % 1000)
        scheds = il.bound_schedules(na, nb, 2, sample=case["sample"], rng=rng)
        scheds = [s for i, s in enumerate(scheds) if i % case["chunks"] == case["chunk"]]
        for sc in scheds:
            v, o, info = _api_run(db, sid, case["modes"], case["retry"], il.Segments(sc))
            obs["evaluations"] += 1
            obs.update(o)
            if info["switches"]:
                keys.add(f"{case['modes']}:{case['retry']}:{info['trace_hash']}")
            for x in v:
                x.update(modes=case["modes"], retry=case["retry"], schedule=sc)
            violations += v
            if sample is None and info.get("history") and len(info["history"]) >= 2 and info["switches"] >= 2:
                sample = {"modes": case["modes"], "retry": case["retry"], "schedule": sc, "history": info["history"]}
    finally:
        os.unlink(db)
    return {"violations": _uniq(violations), "obs": dict(obs), "keys": sorted(keys), "sample": sample}


def _api3(case: dict) -> dict:
    db, sid = _base_db()
    rng = random.Random(case["seed"] * 59 + case["i"])
    obs: Counter = Counter()
    keys: set = set()
    violations = []
    try:
        for _ in range(case["runs"]):
            modes = [rng.choice(MODES) for _ in range(3)]
            retry = rng.random() < 0.5
            s = rng.randrange(1 << 30)
            v, o, info = _api_run(db, sid, modes, retry, il.RandomPolicy(s, 0.4))
            obs["evaluations"] += 1
            obs.update(o)
            if info["switches"]:
                keys.add(f"3:{info['trace_hash']}")
            for x in v:
                x.update(modes=modes, retry=retry, policy_seed=s)
            violations += v
    finally:
        os.unlink(db)
    return {"violations": _uniq(violations), "obs": dict(obs), "keys": sorted(keys)}


def _engine(case: dict) -> dict:
    pair = case["pair"]
    obs: Counter = Counter()
    keys: set = set()
    violations = []
    if pair.startswith("error_save_vs_cancel"):
        # RunTask of a task body that raises: its error-recording save (TransactionHelper.execute_atomic_critical)
        # x the CancelStage of the same stage, committed by another worker between the handler's read and its
        # save.  The pair scenario and the durable-status monitor are C06's; what is decided here is C07's question:
        # a committed write (CANCELED) must not be silently replaced by a writer that had read an older row.
        from . import c06

        r = c06._fault_pair({"kind": "fault_pair", "first": "RunTask", "spec": int(pair.split(":")[1]), "seed": case["seed"], "nofault": True, "sample": case["sample"]})
        obs["evaluations"] = r["obs"].get("evaluations", 0)
        obs["engine_pair_schedules_with_switch"] = len(r["keys"])
        obs["error_save_vs_cancel_runs"] = r["obs"].get("error_path_pair_runs", 0)
        for x in r["violations"]:
            if "CANCELED->" in x["sig"]:
                violations.append(viol("C07/lost-update:committed-cancel-overwritten-by-the-error-path-save", x["msg"] + f" (schedule {x.get('schedule')})"))
            else:
                violations.append(dict(x, sig=x["sig"].replace("C06/", "C07/")))
        return {"violations": _uniq(violations) if "_uniq" in globals() else violations, "obs": dict(obs), "keys": [k.replace("errpair", "c07errpair") for k in r["keys"]]}
    if pair.startswith("join_tracking"):
        jt = pair.split(":")[1]
        spec = c04._join_spec(jt, 2 if jt == "DISCRIMINATOR" else 3)
        # ..._vs_plan: the second writer of the join's row is the StartStage handler that is planning the join
        # (claim commit, then plan commit on a row the other upstream's bookkeeping write may have changed)
        cp = c04._cut("complete_start" if pair.startswith("join_tracking_vs_plan") else "complete_complete", spec)
    else:
        spec = {"name": "cc", "confluent": False, "stages": [specs.st("a"), specs.st("j", ["a"], [dict(specs.OK, out=["j_o"]), dict(specs.OK)]), specs.st("z", ["j"])]}
        cp = _cut_cancel_complete(spec)
    if cp is None:
        return {"violations": [], "obs": {"cut_point_not_reached": 1}, "keys": []}
    db, rows = cp
    try:
        na, nb = il.solo_length(db, rows[0]), il.solo_length(db, rows[1])
        rng = random.Random(case["seed"] * 61)
        scheds = il.bound_schedules(na, nb, 2, sample=case["sample"], rng=rng)
        scheds = [s for i, s in enumerate(scheds) if i % case["chunks"] == case["chunk"]]
        for sc in scheds:
            run, info = il.run_pair(db, rows, il.Segments(sc))
            obs["evaluations"] += 1
            if run is None:
                obs["scheduler_watchdog"] += 1
                continue
            if info["switches"]:
                keys.add(f"{pair}:{info['trace_hash']}")
                obs["engine_pair_schedules_with_switch"] += 1
            v = []
            if pair.startswith("join_tracking"):
                j = run.state["stages"]["j"]
                done = [u for u, s in run.state["stages"].items() if u.startswith("u") and s["status"] in oracles.CONTINUABLE]
                got = j["context"].get("_completed_branches") or []
                # both upstream completions of the pair must be in the join's bookkeeping
                miss = [u for u in done if u not in got]
                if miss:
                    v.append(viol("C07/join-bookkeeping-lost-update", f"_completed_branches={got} misses {miss} although they completed"))
                v += c04.classify([x for x in c04.exactly_once_oracle(spec, run, prop="C07") if "executed-never" not in x["sig"]], run)
                v = [x if not x["sig"].startswith("C04/") else viol(x["sig"].replace("C04/", "C07/"), x["msg"]) for x in v]
            else:
                st = run.state["stages"]["j"]
                # the cancel and the completion both became durable or the loser retried on fresh data:
                # the completed task keeps its completion, the stage ends CANCELED or completes normally
                t0 = st["tasks"][0][1]
                if t0 not in ("SUCCEEDED", "CANCELED"):
                    v.append(viol("C07/cancel-vs-complete-inconsistent", f"task t0 {t0}, stage {st['status']}"))
                if st["status"] not in ("CANCELED", "SUCCEEDED"):
                    v.append(viol("C07/cancel-vs-complete-inconsistent", f"stage {st['status']} tasks {st['tasks']}"))
                tv, _ = oracles.transition_check(run.audit, run.commits, prop="C07")
                v += tv
            for x in v:
                x.update(pair=pair, schedule=sc)
            violations += v
    finally:
        os.unlink(db)
    return {"violations": _uniq(violations), "obs": dict(obs), "keys": sorted(keys)}


def _cut_cancel_complete(spec: dict):
    """CompleteTask(j.t0) pending; push a CancelStage(j) next to it."""
    from stabilize.queue.messages import CancelStage

    from ..world import World

    w = World()
    try:
        w.submit(spec)
        for _ in range(100):
            rows = w.rows()
            if not rows:
                return None
            st = w.snapshot_state()["stages"]
            jid = st["j"]["id"]
            ct = [r for r in rows if r["type"] == "CompleteTask" and c04._stage_id_of(r) == jid]
            if ct:
                w.queue.push(CancelStage(execution_type="PIPELINE", execution_id=w.wf_id, stage_id=jid))
                rows = w.rows()
                cs = [r for r in rows if r["type"] == "CancelStage"]
                path = os.path.join(il.env.scratch_dir(), f"cut-{os.getpid()}-{random.randrange(1 << 40)}.db")
                w.copy_db(path)
                return path, [ct[0]["id"], cs[0]["id"]]
            w.deliver(w.eligible(rows)[0]["id"])
        return None
    finally:
        w.close()


def _uniq(vs: list[dict]) -> list[dict]:
    seen = set()
    out = []
    for x in vs:
        if x["sig"] not in seen:
            seen.add(x["sig"])
            out.append(x)
    return out


SERIAL_SPECS = [
    lambda: specs.diamond(),
    lambda: specs.multitask(),
    lambda: specs.first_of(2),
    lambda: specs.quorum(3, 2),
    lambda: specs.synthetic(),
    lambda: specs.or_split(),
    lambda: specs.failed_continue(),
    lambda: specs.jump_side_branch(1),
    lambda: specs.early_join_with_successor(),
    lambda: specs.stopped_branch(),
]


def _outcome(run) -> tuple:
    from ..oracles import exec_counts

    st = run.state.get("stages", {})
    return (run.state.get("wf"), tuple(sorted((k, v["status"], tuple(t[1] for t in v["tasks"])) for k, v in st.items())), tuple(sorted((str(k), n) for k, n in exec_counts(run.ledger).items())), bool(run.quiescent))


def _serial_pairs(case: dict) -> dict:
    """Serializability of every pair of co-enabled messages: at every step of a FIFO run at which two (or more)
    messages are deliverable, each pair of them is handled by two workers under every schedule with one preemption
    (and a sample with two); after draining the rest, the outcome - workflow and stage / task statuses, per-task
    execution counts - must be the outcome of one of the two sequential orders.  No reference model: the two serial
    runs from the same durable state are the specification."""
    from ..world import World

    spec = SERIAL_SPECS[case["spec"]]()
    rng = random.Random(case["seed"] * 733 + case["spec"])
    ref = delivery_run(spec)
    obs: Counter = Counter()
    keys: set = set()
    violations: list = []
    for k in range(ref.steps):
        if k % case["stride"] != case["phase"]:
            continue
        w = World()
        cut = None
        try:
            w.submit(spec)
            for _ in range(k):
                rows = w.eligible(w.rows())
                if not rows:
                    break
                w.deliver(rows[0]["id"])
            rows = w.eligible(w.rows())
            if len(rows) >= 2:
                path = os.path.join(il.env.scratch_dir(), f"cut-{os.getpid()}-{random.randrange(1 << 40)}.db")
                w.store._get_connection().commit()
                w.copy_db(path)
                cut = (path, [(r["id"], r["type"]) for r in rows[:3]])
        finally:
            w.close()
        if cut is None:
            continue
        db, cand = cut
        try:
            pairs = [(cand[i], cand[j]) for i in range(len(cand)) for j in range(i + 1, len(cand))][:2]
            for (ra, ta), (rb, tb) in pairs:
                rows_ = [ra, rb]
                serial = {}
                for name, sc in (("A;B", [("W0", 10**6)]), ("B;A", [("W1", 10**6)])):
                    run, info = il.run_pair(db, rows_, il.Segments(sc))
                    if run is not None:
                        serial[name] = _outcome(run)
                if len(serial) < 2:
                    obs["scheduler_watchdog"] += 1
                    continue
                na, nb = il.solo_length(db, ra), il.solo_length(db, rb)
                one = il.bound_schedules(na, nb, 1)[2:]
                two = il.bound_schedules(na, nb, 2, sample=case["sample"], rng=rng)[2 + len(one):]
                scheds = (one if len(one) <= case["sample"] * 2 else rng.sample(one, case["sample"] * 2)) + two
                for sc in scheds:
                    run, info = il.run_pair(db, rows_, il.Segments(sc))
                    obs["evaluations"] += 1
                    if run is None:
                        obs["scheduler_watchdog"] += 1
                        continue
                    if info["switches"]:
                        obs["co_enabled_pair_schedules_with_switch"] += 1
                        keys.add(f"serial:{spec['name']}:{ta}x{tb}:{info['trace_hash']}")
                    got = _outcome(run)
                    if case.get("quiescence"):
                        # the same pair schedules seen through C05's predicates (used by C05's own `pairs` kind)
                        qv = oracles.attribute(oracles.quiescence_check(run, "C05", spec), run, "C05")
                        obs["quiescent_runs"] += 1 if run.quiescent else 0
                        for x in qv:
                            x.update(pair=f"{ta} x {tb}", step=k, schedule=sc, spec=spec["name"])
                        violations += qv
                        continue
                    if got not in serial.values():
                        a_, b_ = serial["A;B"], serial["B;A"]
                        violations.append(viol(f"C07/pair-not-serializable:{ta}x{tb}", f"{spec['name']}, step {k}: {ta}(row {ra}) x {tb}(row {rb}) under schedule {sc} ends {got[0]} {[(s_[0], s_[1]) for s_ in got[1]]} executions {dict(got[2])}; the two serial orders end {a_[0]} {[(s_[0], s_[1]) for s_ in a_[1]]} {dict(a_[2])}" + ("" if a_ == b_ else f" / {b_[0]} {[(s_[0], s_[1]) for s_ in b_[1]]} {dict(b_[2])}")))
        finally:
            os.unlink(db)
    return {"violations": _uniq(violations), "obs": dict(obs), "keys": sorted(keys)}


def run_case(case: dict) -> dict:
    if case["kind"] == "serial_pairs":
        return _serial_pairs(case)
    if case["kind"] == "api2":
        return _api2(case)
    if case["kind"] == "api3":
        return _api3(case)
    return _engine(case)


_ = threading

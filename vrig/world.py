"""World: one scratch database + the real engine objects + the delivery engine.

The harness drives the same public objects the repository's tests use
(SqliteWorkflowStore, SqliteQueue, QueueProcessor, Orchestrator,
WorkflowRecovery, EventReplayer).  It controls which message is delivered next
(by making exactly one row visible and calling the real poll_one /
_handle_message / ack), whether its ack is withheld, and virtual time.
"""

from __future__ import annotations

import itertools
import json
import os
import random
import shutil
import threading
import time
from datetime import UTC, datetime, timedelta
from typing import Any

from . import audit, env, hooks, vtask

_counter = itertools.count()
FAR = "9999-01-01T00:00:00+00:00"
PAST = "2000-01-01T00:00:00+00:00"

_template_lock = threading.Lock()
_templates: dict[tuple, str] = {}


def reset_engine_memory() -> None:
    """Drop every piece of in-memory state a process restart would drop."""
    from stabilize.events import reset_event_bus, reset_event_migrator, reset_event_recorder
    from stabilize.events import txn_scope
    from stabilize.handlers.run_task.handler import RunTaskHandler
    from stabilize.persistence.connection import ConnectionManager, SingletonMeta
    from stabilize.queue.dedup import reset_deduplicator
    from stabilize.resilience.cancellation import reset_cancellation_state

    SingletonMeta.reset(ConnectionManager)
    reset_deduplicator()
    RunTaskHandler._executing_tasks.clear()
    reset_cancellation_state()
    reset_event_bus()
    reset_event_recorder()
    reset_event_migrator()
    try:
        txn_scope._local.scope = None
    except Exception:
        pass
    try:
        from stabilize.finalizers import get_finalizer_registry

        reg = get_finalizer_registry()
        if hasattr(reg, "clear"):
            reg.clear()
    except Exception:
        pass


_shared_bulkheads = None


def _bulkheads():
    global _shared_bulkheads
    if _shared_bulkheads is None:
        from stabilize.resilience.bulkheads import TaskBulkheadManager
        from stabilize.resilience.config import ResilienceConfig

        _shared_bulkheads = TaskBulkheadManager(ResilienceConfig.from_env())
    return _shared_bulkheads


def virtualize_backoff() -> None:
    """Retry back-offs (resilient_circuit's `sleep`) are real-time waits that change no
    decision; under the harness they are virtual (the scheduler holds the baton anyway)."""
    try:
        import resilient_circuit.retry as _r

        _r.sleep = lambda seconds: None  # type: ignore[assignment]
    except Exception:
        pass


class World:
    def __init__(
        self,
        path: str | None = None,
        events: bool = False,
        sdata: bool = False,
        ledger: list | None = None,
        ledger_file: str | None = None,
        dedup_items: int = 200,
        trust_negative: bool = False,
        keep: bool = False,
        fresh: bool = True,
        max_attempts: int = 10,
        base_time: float | None = None,
    ) -> None:
        hooks.install()
        # wall-clock moment the database at `path` was copied from a live world (its file mtime): delays of
        # the queue rows it already contains are measured against it, not against "now", so the virtual-time
        # classification of those rows does not depend on how long ago the copy was made (machine load)
        self._base_time = base_time
        self._pre_max_id = 0
        virtualize_backoff()
        # events="echo": event sourcing on AND a SYNC subscriber that records a follow-up event of its own when it
        # is told of a completion (what a progress / audit hook does)
        self.echo = events == "echo"
        self.events = bool(events)
        self.sdata = sdata
        self.dedup_items = dedup_items
        self.trust_negative = trust_negative
        self.max_attempts = max_attempts
        self.keep = keep
        self.owns_file = path is None
        if path is None:
            path = os.path.join(env.scratch_dir(), f"w-{os.getpid()}-{next(_counter)}.db")
            self._from_template(path)
        elif not os.path.exists(path):
            self._from_template(path)
        self.path = path
        self.url = f"sqlite:///{path}"
        self.ledger: list[dict] = ledger if ledger is not None else []
        self.ledger_file = ledger_file
        self._ledger_lock = threading.Lock()
        self.commits: list[tuple] = []  # (index, thread, max_seq, tag)
        self.handled: list[dict] = []  # one record per delivery
        self.handler_calls: list[tuple] = []  # (row id, type) for each handler.handle entered
        self.current: dict[str, Any] = {}  # thread name -> tag of the message being handled
        self.vnow = 0.0
        self._due: dict[int, float] = {}
        self.withheld: dict[int, str] = {}  # row id -> lock held by a worker that never acked
        self._seen_deliver: dict[int, str] = {}
        self.side = hooks.raw_connect(path, isolation_level=None, check_same_thread=False, timeout=30)
        if base_time is not None:
            try:
                self._pre_max_id = int(self.side.execute("SELECT COALESCE(MAX(id), 0) FROM queue_messages").fetchone()[0])
            except Exception:
                self._pre_max_id = 0
        self._side_lock = threading.RLock()
        self.commit_listeners: list = []
        self.store = self.queue = self.processor = self.orch = None
        self.recorder = self.event_store = None
        self.bus_log: list = []
        if fresh:
            self.fresh_worker()

    # ------------------------------------------------------------------ setup
    def _from_template(self, path: str) -> None:
        key = (self.events, self.sdata)
        with _template_lock:
            tpl = _templates.get(key)
            if tpl is None:
                tpl = os.path.join(env.scratch_dir(), f"tpl-{os.getpid()}-{int(self.events)}{int(self.sdata)}.db")
                if os.path.exists(tpl):
                    os.unlink(tpl)
                self._build_schema(tpl)
                _templates[key] = tpl
        shutil.copyfile(tpl, path)

    def _build_schema(self, path: str) -> None:
        from stabilize.persistence.sqlite.schema import create_tables
        from stabilize.queue.sqlite.schema import create_queue_tables

        conn = hooks.raw_connect(path)
        conn.execute("PRAGMA journal_mode = DELETE")
        create_tables(conn)
        create_queue_tables(conn, "queue_messages")
        if self.events:
            from stabilize.events.store.sqlite.schema import EVENTS_SCHEMA, SNAPSHOTS_SCHEMA, SUBSCRIPTIONS_SCHEMA

            conn.executescript(EVENTS_SCHEMA)
            conn.executescript(SNAPSHOTS_SCHEMA)
            conn.executescript(SUBSCRIPTIONS_SCHEMA)
        conn.commit()
        audit.install(conn, events=self.events, sdata=self.sdata)
        conn.close()

    def activate(self) -> None:
        vtask.set_world(self)
        hooks.H.commit_hook = self._on_commit

    def fresh_worker(self, hydrate: bool = True) -> None:
        """(Re)create every engine object as a freshly started worker process would."""
        from stabilize import Orchestrator, QueueProcessor, SqliteQueue, SqliteWorkflowStore
        from stabilize.queue.dedup import get_deduplicator
        from stabilize.queue.processor.config import QueueProcessorConfig
        from stabilize.resilience.circuits import WorkflowCircuitFactory
        from stabilize.resilience.config import ResilienceConfig

        reset_engine_memory()
        vtask.register_builders()
        self.activate()
        get_deduplicator(expected_items=self.dedup_items)
        self.store = SqliteWorkflowStore(self.url, create_tables=False)
        self.queue = SqliteQueue(self.url, max_attempts=self.max_attempts)
        if self.events:
            from stabilize.events import SqliteEventStore, configure_event_sourcing, get_event_bus

            self.event_store = SqliteEventStore(self.url, create_tables=False)
            self.recorder = configure_event_sourcing(self.event_store)
            self.bus = get_event_bus()
            self.bus.subscribe("verif-monitor", self._on_bus_event)
        self.registry = vtask.make_registry()
        cfg = QueueProcessorConfig(dedup_trust_negative_cache=self.trust_negative)
        self.processor = QueueProcessor(
            self.queue,
            config=cfg,
            store=self.store,
            task_registry=self.registry,
            bulkhead_manager=_bulkheads(),
            circuit_factory=WorkflowCircuitFactory(ResilienceConfig.from_env()),
        )
        self._wrap_handlers()
        self.orch = Orchestrator(self.queue, self.store)

    def _wrap_handlers(self) -> None:
        world = self
        for mtype, h in list(self.processor._handlers.items()):
            orig = h.handle

            def wrapped(message, _orig=orig, _t=mtype.__name__):
                world.handler_calls.append((getattr(message, "message_id", None), _t, threading.current_thread().name))
                return _orig(message)

            h.handle = wrapped  # type: ignore[method-assign]

    # ------------------------------------------------------------------ hooks
    def _on_commit(self, conn) -> None:
        try:
            row = sqlite3_max_seq(conn)
        except Exception:
            row = -1
        t = threading.current_thread().name
        idx = len(self.commits)
        self.commits.append((idx, t, row, self.current.get(t)))
        for fn in self.commit_listeners:
            fn(self, idx, conn)

    def _on_bus_event(self, event) -> None:
        """SYNC subscriber: is the event visible to an independent connection right now?"""
        with self._side_lock:
            row = self.side.execute("SELECT sequence FROM events WHERE event_id = ?", (event.event_id,)).fetchone()
        self.bus_log.append(
            {"thread": threading.current_thread().name, "sequence": event.sequence, "type": event.event_type.value, "event_id": event.event_id, "visible": row is not None, "in_txn": bool(self.store._get_connection().in_transaction)}
        )
        if self.echo and self.recorder is not None and event.event_type.value in ("stage.completed", "task.completed", "stage.failed"):
            from stabilize.events.base import EntityType, Event, EventType

            self.recorder._record(Event(event_type=EventType.CUSTOM, entity_type=EntityType.STAGE, entity_id=event.entity_id, workflow_id=event.workflow_id, data={"message": "seen", "about": event.event_type.value}))

    # ----------------------------------------------------------------- ledger
    def iteration_of(self, stage_id: str) -> int:
        with self._side_lock:
            r = self.side.execute(
                "SELECT COUNT(*) FROM verif_log WHERE kind='status' AND op='stage' AND a=? AND d='NOT_STARTED'",
                (stage_id,),
            ).fetchone()
        return int(r[0])

    def max_seq(self) -> int:
        with self._side_lock:
            r = self.side.execute("SELECT COALESCE(MAX(seq),0) FROM verif_log").fetchone()
        return int(r[0])

    def ledger_begin(self, stage, ref: str, idx: int) -> dict:
        it = self.iteration_of(stage.id)
        seq = self.max_seq()
        with self._ledger_lock:
            n = sum(
                1 for r in self.ledger if r["stage_id"] == stage.id and r["task"] == idx and r["iter"] == it
            )
            rec = {
                "ord": len(self.ledger),
                "wf": stage.execution.id if stage.has_execution() else None,
                "ref": ref,
                "stage_id": stage.id,
                "task": idx,
                "iter": it,
                "n": n,
                "seq": seq,
                "commit": len(self.commits),
                "thread": threading.current_thread().name,
                "msg": self.current.get("__handling__"),
                "ctx": vtask.jcopy(stage.context),
                "pid": os.getpid(),
            }
            self.ledger.append(rec)
        return rec

    def ledger_end(self, rec: dict) -> None:
        rec["end_seq"] = self.max_seq()
        if self.ledger_file:
            with self._ledger_lock:
                with open(self.ledger_file, "a") as f:
                    f.write(json.dumps(rec, default=str) + "\n")

    # ----------------------------------------------------------------- submit
    def submit(self, spec: dict) -> str:
        from .specs import build_workflow

        wf = build_workflow(spec)
        self.store.store(wf)
        self.orch.start(wf)
        self.wf_id = wf.id
        self.spec = spec
        return wf.id

    def store_only(self, spec: dict, copies: int = 1) -> None:
        """Other executions of the same template in the same store (stored, never started): reference ids are unique
        per execution only.  To be called BEFORE submit() (the oracles map references to the rows inserted last)."""
        from .specs import build_workflow

        for _ in range(copies):
            self.store.store(build_workflow(spec))

    # ------------------------------------------------------------------ queue
    def _exec_side(self, sql: str, params: tuple = ()) -> Any:
        with self._side_lock:
            return self.side.execute(sql, params)

    def harness_write(self, statements: list[tuple[str, tuple]]) -> None:
        """Harness-owned write (warps): hidden from the audit triggers' consumers
        by bracketing with marker rows."""
        with self._side_lock:
            self.side.execute("BEGIN IMMEDIATE")
            try:
                self.side.execute("INSERT INTO verif_log(kind, op) VALUES ('harness', 'begin')")
                for sql, p in statements:
                    self.side.execute(sql, p)
                self.side.execute("INSERT INTO verif_log(kind, op) VALUES ('harness', 'end')")
                self.side.execute("COMMIT")
            except BaseException:
                self.side.execute("ROLLBACK")
                raise

    def rows(self) -> list[dict]:
        cur = self._exec_side(
            "SELECT id, message_id, message_type, payload, deliver_at, attempts, max_attempts, locked_until, version "
            "FROM queue_messages ORDER BY id"
        )
        cols = ("id", "uuid", "type", "payload", "deliver_at", "attempts", "max_attempts", "locked_until", "version")
        out = []
        now = datetime.now(UTC)
        for r in cur.fetchall():
            d = dict(zip(cols, r))
            rid = d["id"]
            if self._seen_deliver.get(rid) != d["deliver_at"] and d["deliver_at"] != PAST:
                # first sight (or re-timed by reschedule): compute the virtual due time
                self._seen_deliver[rid] = d["deliver_at"]
                try:
                    dt = datetime.fromisoformat(d["deliver_at"].replace(" ", "T"))
                    if dt.tzinfo is None:
                        dt = dt.replace(tzinfo=UTC)
                    ref_now = datetime.fromtimestamp(self._base_time, UTC) if (self._base_time is not None and rid <= self._pre_max_id) else now
                    try:
                        # the message's own creation time is a load-independent reference: for a freshly pushed
                        # message deliver_at - created_at is exactly the requested delay (an old, re-pushed or
                        # rescheduled message looks "more delayed", which only biases the virtual-time order)
                        ca = datetime.fromisoformat(json.loads(d["payload"]).get("created_at"))
                        if ca.tzinfo is None:
                            ca = ca.replace(tzinfo=UTC)
                        if ca < ref_now:
                            ref_now = max(ca, ref_now - timedelta(seconds=5))
                    except Exception:
                        pass
                    delay = (dt - ref_now).total_seconds()
                except ValueError:
                    delay = 0.0
                self._due[rid] = self.vnow + (delay if delay > 0.3 else 0.0)
            d["due"] = self._due.get(rid, self.vnow)
            d["delayed"] = d["due"] > self.vnow
            out.append(d)
        return out

    def eligible(self, rows: list[dict] | None = None, advance: bool = True) -> list[dict]:
        """Rows deliverable at the current virtual time; if none, advance virtual
        time to the earliest due row (discrete-event time)."""
        rows = self.rows() if rows is None else rows
        live = [r for r in rows if r["attempts"] < r["max_attempts"]]
        ready = [r for r in live if r["due"] <= self.vnow]
        if ready or not live or not advance:
            return ready
        t = min(r["due"] for r in live)
        self.vnow = t
        return [r for r in live if r["due"] <= self.vnow]

    def dlq_rows(self) -> list[dict]:
        cur = self._exec_side("SELECT id, original_id, message_id, message_type, payload, attempts, error FROM queue_messages_dlq")
        cols = ("id", "original_id", "uuid", "type", "payload", "attempts", "error")
        return [dict(zip(cols, r)) for r in cur.fetchall()]

    def expose(self, row_id: int) -> None:
        """Make exactly this row visible to poll_one (time warp + lock lapse).  The other
        rows are hidden behind a far-future lock only until `unhide()` (called right after
        the poll): code that inspects lock state must see waiting rows as unlocked."""
        self.harness_write(
            [
                (
                    "UPDATE queue_messages SET "
                    "locked_until = CASE WHEN id = ? THEN NULL ELSE ? END, "
                    "deliver_at = CASE WHEN id = ? THEN ? ELSE deliver_at END",
                    (row_id, FAR, row_id, PAST),
                )
            ]
        )
        self.withheld.pop(row_id, None)

    def unhide(self) -> None:
        """Undo the hiding locks: waiting rows are unlocked again; rows whose ack was
        withheld keep the lock their worker took (until `lapse`)."""
        stmts = [("UPDATE queue_messages SET locked_until = NULL WHERE locked_until = ?", (FAR,))]
        for rid, lock in self.withheld.items():
            stmts.append(("UPDATE queue_messages SET locked_until = ? WHERE id = ?", (lock, rid)))
        self.harness_write(stmts)

    def lapse(self, row_id: int) -> None:
        """The visibility lock of a withheld (never acknowledged) message runs out."""
        if self.withheld.pop(row_id, None) is not None:
            self.harness_write([("UPDATE queue_messages SET locked_until = NULL WHERE id = ?", (row_id,))])

    def deliver(self, row_id: int, ack: bool = True, tag: Any = None) -> dict:
        """Deliver one chosen row through the real poll_one -> _handle_message -> ack path."""
        self.expose(row_id)
        t = threading.current_thread().name
        before_calls = len(self.handler_calls)
        before_ledger = len(self.ledger)
        before_commits = len(self.commits)
        rec = {"row": row_id, "ack": ack, "step": len(self.handled)}
        q = self.queue
        msg = q.poll_one()
        self.unhide()
        if msg is None:
            rec["polled"] = None
            self.handled.append(rec)
            return rec
        rec["type"] = type(msg).__name__
        rec["polled"] = msg.message_id
        self.current[t] = (rec["type"], msg.message_id)
        self.current["__handling__"] = msg.message_id
        try:
            try:
                self.processor._handle_message(msg)
                if ack:
                    q.ack(msg)
                else:
                    r = self._exec_side("SELECT locked_until FROM queue_messages WHERE id = ?", (row_id,)).fetchone()
                    if r is not None and r[0]:
                        self.withheld[row_id] = r[0]
                rec["error"] = None
            except Exception as e:  # mirrors QueueProcessor.process_and_ack
                rec["error"] = f"{type(e).__name__}: {e}"
                msg.set_error_context(e)
                q.reschedule(msg, self.processor.config.retry_delay)
        finally:
            self.current.pop(t, None)
            self.current.pop("__handling__", None)
        rec["handled"] = len(self.handler_calls) > before_calls
        rec["executions"] = len(self.ledger) - before_ledger
        rec["commits"] = (before_commits, len(self.commits))
        self.handled.append(rec)
        return rec

    def claim_only(self, row_id: int):
        """A worker polls the row and stalls before handling it: the claimed copy (its delivery count
        is a snapshot taken now) is kept, the lock is left to lapse."""
        self.expose(row_id)
        msg = self.queue.poll_one()
        self.unhide()
        if msg is None:
            return None
        r = self._exec_side("SELECT locked_until FROM queue_messages WHERE id = ?", (row_id,)).fetchone()
        if r is not None and r[0]:
            self.withheld[row_id] = r[0]
        self.stale_claims = getattr(self, "stale_claims", {})
        self.stale_claims[row_id] = msg
        return msg

    def deliver_stale(self, row_id: int) -> dict | None:
        """The stalled worker carries on with the copy it claimed in claim_only()."""
        msg = getattr(self, "stale_claims", {}).pop(row_id, None)
        if msg is None:
            return None
        t = threading.current_thread().name
        before_calls, before_ledger, before_commits = len(self.handler_calls), len(self.ledger), len(self.commits)
        rec = {"row": row_id, "ack": True, "step": len(self.handled), "stale_copy": True, "type": type(msg).__name__, "polled": msg.message_id}
        self.current[t] = (rec["type"], msg.message_id)
        self.current["__handling__"] = msg.message_id
        try:
            try:
                self.processor._handle_message(msg)
                self.queue.ack(msg)
                rec["error"] = None
            except Exception as e:
                rec["error"] = f"{type(e).__name__}: {e}"
                msg.set_error_context(e)
                self.queue.reschedule(msg, self.processor.config.retry_delay)
        finally:
            self.current.pop(t, None)
            self.current.pop("__handling__", None)
        rec["handled"] = len(self.handler_calls) > before_calls
        rec["executions"] = len(self.ledger) - before_ledger
        rec["commits"] = (before_commits, len(self.commits))
        self.handled.append(rec)
        return rec

    # ---------------------------------------------------------------- actions
    def run_recovery(self) -> list:
        t = threading.current_thread().name
        self.current[t] = ("Recovery", None)
        try:
            return self.processor.run_recovery()
        finally:
            self.current.pop(t, None)

    def cancel(self, user: str = "verif", reason: str = "injected") -> None:
        wf = self.store.retrieve(self.wf_id)
        self.orch.cancel(wf, user, reason)

    def signal(self, stage_ref: str, name: str, data: dict, persistent: bool) -> None:
        from stabilize.hitl import send_signal

        wf = self.store.retrieve(self.wf_id)
        st = wf.stage_by_ref_id(stage_ref)
        send_signal(self.queue, wf.id, st.id, name, data, execution_type=wf.type.value, persistent=persistent)

    # ------------------------------------------------------------------ drain
    def drain(
        self,
        rng: random.Random | None = None,
        max_steps: int = 2000,
        noack_p: float = 0.0,
        max_redeliver: int = 3,
        on_step=None,
        order: str = "fifo",
    ) -> int:
        """Run deliveries until the queue is empty (quiescence) or the budget is spent."""
        steps = 0
        withheld: dict[int, int] = {}
        while steps < max_steps:
            rows = self.rows()
            if not rows:
                return steps
            if on_step is not None:
                on_step(self, steps, rows)
                rows = self.rows()
                if not rows:
                    return steps
            ready = self.eligible(rows)
            if not ready:
                # only attempts-exhausted rows are left: sweep them to the DLQ as the processor would
                self.processor._check_dlq()
                if not self.eligible(self.rows()):
                    return steps
                continue
            if order == "fifo" or rng is None:
                row = ready[0]
            elif order == "lifo":
                row = ready[-1]
            else:
                row = rng.choice(ready)
            ack = True
            if noack_p and rng is not None and rng.random() < noack_p:
                if withheld.get(row["id"], 0) < max_redeliver and row["attempts"] < row["max_attempts"] - 3:
                    ack = False
                    withheld[row["id"]] = withheld.get(row["id"], 0) + 1
            self.deliver(row["id"], ack=ack)
            steps += 1
        return steps

    # ------------------------------------------------------------ observation
    def audit(self, since: int = 0) -> list[dict]:
        with self._side_lock:
            rows = audit.read(self.side, since)
        # drop harness-bracketed rows
        out = []
        hidden = False
        for r in rows:
            if r["kind"] == "harness":
                hidden = r["op"] == "begin"
                continue
            if not hidden:
                out.append(r)
        return out

    def snapshot_state(self, wf_id: str | None = None) -> dict:
        """Durable state as the public store API reports it."""
        wf = self.store.retrieve(wf_id or self.wf_id)
        stages = {}
        for s in wf.stages:
            script = s.context.get("_v") or {}
            ref = script.get("ref") or s.ref_id
            stages[ref] = {
                "id": s.id,
                "status": s.status.name,
                "tasks": [(t.name, t.status.name) for t in s.tasks],
                "synthetic": s.parent_stage_id is not None,
                "outputs": vtask.strip_ord(vtask.jcopy(s.outputs)),
                "context": vtask.jcopy(s.context),
                "version": s.version,
            }
        return {"wf": wf.status.name, "canceled": bool(wf.is_canceled), "stages": stages}

    def in_transaction(self) -> bool:
        conn = self.store._get_connection()
        return bool(conn.in_transaction)

    # ------------------------------------------------------------------ close
    def copy_db(self, dest: str) -> None:
        shutil.copyfile(self.path, dest)

    def close(self) -> None:
        try:
            self.side.close()
        except Exception:
            pass
        if vtask._current is self:
            vtask.set_world(None)
        if hooks.H.commit_hook == self._on_commit:
            hooks.H.commit_hook = None
        try:
            from stabilize.persistence.connection import ConnectionManager, SingletonMeta

            SingletonMeta.reset(ConnectionManager)
        except Exception:
            pass
        if self.owns_file and not self.keep:
            for suffix in ("", "-journal", "-wal", "-shm"):
                try:
                    os.unlink(self.path + suffix)
                except FileNotFoundError:
                    pass


def sqlite3_max_seq(conn) -> int:
    import sqlite3 as _s

    r = _s.Connection.execute(conn, "SELECT COALESCE(MAX(seq),0) FROM verif_log").fetchone()
    return int(r[0])


def cleanup_templates() -> None:
    for p in list(_templates.values()):
        try:
            os.unlink(p)
        except FileNotFoundError:
            pass
    _templates.clear()


__all__ = ["World", "reset_engine_memory", "cleanup_templates", "timedelta", "time"]

"""C16 - a stage sees exactly its ancestors' outputs, the nearest ancestor winning."""

from __future__ import annotations

import itertools
import random
from collections import Counter

from .. import oracles, specs
from ..framework import viol
from ..runs import delivery_run
from ..vtask import strip_ord

ID = "C16"
LEVEL = "exploration"
RULE = (
    "case A = random AND-join DAG (<=7 stages, 1-3 tasks) whose tasks write uniquely tagged values '<stage>.<key>@<iteration>' "
    "under randomly overlapping scalar keys (k1..k3), list keys (l1,l2) and keys preset in stage contexts, or a jump loop "
    "whose upstream outputs change per iteration; x delivery schedules. For every Task.execute the recorded context is "
    "compared with a reference visibility model computed from the DAG and the ledger (foreign tags, missing keys, "
    "path-ordered nearest producer of the current iteration, list multiset). case B = fan-in with output_reducers, all "
    "permutations of branch completion order (<=4 branches) + random value multisets fed to apply_output_reducers in every "
    "order; and the StartStage of a reducer join, pushed by the branch that finished first, handled while a second worker "
    "takes the last branch through its final RunTask / CompleteTask / CompleteStage at every statement boundary. "
    "Non-trivial = execution with >=1 ancestor-produced key; distinct = (stage depth, #producers of the key, "
    "path-ordered?, iteration>0, own-context shadow)."
)
ASSUMPTIONS = ["SQLite backend", "only path-ordered scalar keys are asserted by value; for unordered producers membership in the candidate set"]
MIN_OBS = {"keys_checked": {"quick": 3000, "thorough": 50000}, "later_iteration_executions": {"quick": 50, "thorough": 500}, "reducer_orders": {"quick": 200, "thorough": 3000}, "interleaved_runs": {"quick": 60, "thorough": 800}, "reducer_iterations_checked": {"quick": 20, "thorough": 150}, "plan_x_signal_schedules_with_switch": {"quick": 100, "thorough": 1500}, "plan_x_last_branch_schedules_with_switch": {"quick": 40, "thorough": 40}}
TIMEOUT = {"quick": 600, "thorough": 3000}

SCALARS = ["k1", "k2", "k3"]
LISTS = ["l1", "l2"]


def _rand_spec(rng: random.Random, i: int) -> dict:
    n = rng.randint(3, 7)
    refs = [f"s{j}" for j in range(n)]
    stages = []
    for j, r in enumerate(refs):
        req = [] if j == 0 else sorted(rng.sample(refs[:j], min(rng.choice([1, 1, 2, 2, 3]), j)))
        t = []
        for ti in range(rng.choice([1, 1, 2, 3])):
            b = {"kind": rng.choice(["ok", "ok", "ok", "fc"]), "out": [f"{r}_o{ti}"]}
            for k in SCALARS:
                if rng.random() < 0.35:
                    b["out"].append(k)
            for k in LISTS:
                if rng.random() < 0.3:
                    b.setdefault("lout", []).append(k)
            t.append(b)
        s = specs.st(r, req, t, type=rng.choice(["v", "vb"]))
        if rng.random() < 0.25:
            s.setdefault("ctx", {})[rng.choice(SCALARS)] = f"own.{r}"
        if rng.random() < 0.15:
            s.setdefault("ctx", {})[rng.choice(LISTS)] = [f"own.{r}.item"]
        if j > 0 and rng.random() < 0.1:
            s.setdefault("ctx", {})["stageEnabled"] = False
        stages.append(s)
    return {"name": f"c16rand_{i}", "confluent": True, "stages": stages}


def _loop_spec(rng: random.Random, i: int) -> dict:
    times = rng.randint(1, 3)
    shape = rng.choice(["loop", "side", "loop2", "bodyside", "bodyside"])
    if shape == "side":
        sp = specs.jump_side_branch(times)
    elif shape == "bodyside":
        sp = specs.jump_body_side_chain(times)
    else:
        sp = specs.jump_loop(times, rng.randint(2, 4))
    for s in sp["stages"]:
        for b in s["t"]:
            if rng.random() < 0.6:
                b.setdefault("out", []).append(rng.choice(SCALARS))
            if rng.random() < 0.4:
                b.setdefault("lout", []).append(rng.choice(LISTS))
    sp["name"] = f"c16{shape}_{times}_{i}"
    return sp


def _forward_spec(rng: random.Random, i: int) -> dict:
    """r -> s -> m -> t -> u where the LAST task of s jumps forward to t (m is bypassed) and hands over outputs:
    t and u must see everything s produced - also what only the routing task produced - through the ancestor merge."""
    work = {"kind": "ok", "out": ["s_work", rng.choice(SCALARS)], "lout": [rng.choice(LISTS)]}
    route = {"kind": "jump", "to": "t", "times": 1, "by_iter": True, "out": ["s_route", rng.choice(SCALARS)], "lout": [rng.choice(LISTS)]}
    stages = [
        specs.st("r", [], [dict(specs.OK, out=["r_o", rng.choice(SCALARS)], lout=[rng.choice(LISTS)])]),
        specs.st("s", ["r"], [work, route] if rng.random() < 0.7 else [route]),
        specs.st("m", ["s"], [dict(specs.OK, out=["m_o", rng.choice(SCALARS)])]),
        specs.st("t", ["m"], [dict(specs.OK, out=["t_o"])]),
        specs.st("u", ["t"], [dict(specs.OK, out=["u_o"])]),
    ]
    return {"name": f"c16forward_{i}", "confluent": True, "stages": stages}


def _spec_for(i: int, seed: int) -> dict:
    rng = random.Random(seed * 7 + i * 1013)
    if i % 10 == 9:
        sp = _forward_spec(rng, i)
    else:
        sp = _loop_spec(rng, i) if i % 3 == 2 else _rand_spec(rng, i)
    if i % 2 == 1:
        # the order in which a workflow lists its stages carries no meaning: every second workflow is listed
        # reversed / shuffled (code that walks execution.stages once must not depend on upstream-first listing)
        sp = dict(sp, stages=list(reversed(sp["stages"])) if i % 4 == 1 else rng.sample(sp["stages"], len(sp["stages"])))
    return sp


def gen_cases(tier: str, seed: int) -> list[dict]:
    n, k = (60, 10) if tier == "quick" else (500, 40)
    cases = [{"kind": "flow", "spec_i": i, "seed": seed, "nsched": k} for i in range(n)]
    nred = 12 if tier == "quick" else 80
    cases += [{"kind": "reducers", "i": i, "seed": seed} for i in range(nred)]
    cases += [{"kind": "race", "spec_i": i, "seed": seed} for i in range(80 if tier == "quick" else 1000)]
    cases += [{"kind": "pair", "variant": v, "seed": seed, "sample": 80 if tier == "quick" else 1200} for v in range(4)]
    cases += [{"kind": "pair", "variant": 3, "seed": seed + 1, "sample": 80 if tier == "quick" else 1200}]
    return cases


# ---------------------------------------------------------------------------
# reference visibility model
# ---------------------------------------------------------------------------


def _iter_at(audit_rearms: dict[str, list[int]], sid: str, seq: int) -> int:
    return sum(1 for s in audit_rearms.get(sid, ()) if s <= seq)


def visibility_oracle(spec: dict, run) -> tuple[list[dict], Counter, set]:
    out: list[dict] = []
    obs: Counter = Counter()
    keys: set = set()
    ids = oracles.stage_ids(run.audit)
    rearms: dict[str, list[int]] = {}
    for a in run.audit:
        if a["kind"] == "status" and a["op"] == "stage" and a["d"] == "NOT_STARTED":
            rearms.setdefault(a["a"], []).append(a["seq"])
    sdefs = {s["ref"]: s for s in spec["stages"]}
    anc = {r: specs.ancestors(spec, r) for r in sdefs}
    all_refs = set(sdefs)
    early = specs.early_join_refs(spec)
    by_ref: dict[str, list[dict]] = {}
    for r in run.ledger:
        by_ref.setdefault(r["ref"], []).append(r)
    # the first execution of a stage in an iteration sees the context planned at StartStage
    seen_first: set = set()
    for rec in run.ledger:
        ref = rec["ref"]
        if ref not in sdefs or ref in early:
            continue
        kfirst = (ref, rec["iter"])
        if kfirst in seen_first:
            continue
        seen_first.add(kfirst)
        ctx = rec["ctx"]
        own = sdefs[ref].get("ctx") or {}
        # visible outputs of every ancestor at this moment
        vis: dict[str, dict] = {}
        for a in anc[ref]:
            if a not in ids:
                continue
            it = _iter_at(rearms, ids[a], rec["seq"])
            o: dict = {}
            for r2 in by_ref.get(a, []):
                if r2["iter"] == it and r2["ord"] < rec["ord"] and r2.get("outputs"):
                    o.update(strip_ord(r2["outputs"]))
            vis[a] = o
        # 1. no foreign tags
        for k, v in ctx.items():
            if k.startswith("_"):
                continue
            vals = v if isinstance(v, list) else [v]
            for item in vals:
                if isinstance(item, str) and "@" in item and "." in item:
                    prod = item.split(".", 1)[0]
                    if prod in all_refs and prod not in anc[ref] and prod != ref:
                        out.append(viol("C16/foreign-value", f"{ref}@{rec['iter']} saw {item} under {k}; {prod} is not an ancestor"))
        # 2. per key
        produced: dict[str, list[str]] = {}
        for a, o in vis.items():
            for k in o:
                produced.setdefault(k, []).append(a)
        for k, prods in produced.items():
            obs["keys_checked"] += 1
            is_list = k in LISTS
            shadow = k in own
            ordered = all(p in anc[q] or q in anc[p] for p, q in itertools.combinations(prods, 2))
            keys.add(f"d{min(len(anc[ref]), 5)}:p{min(len(prods), 3)}:{'ord' if ordered else 'unord'}:{'it+' if rec['iter'] else 'it0'}:{'own' if shadow else ''}:{'list' if is_list else 'scalar'}")
            if k not in ctx:
                out.append(viol("C16/missing-key", f"{ref}@{rec['iter']} does not see {k} produced by ancestors {prods}"))
                continue
            got = strip_ord(ctx[k])
            if is_list:
                want = []
                for a in prods:
                    want += vis[a][k] if isinstance(vis[a][k], list) else [vis[a][k]]
                if shadow and isinstance(own[k], list):
                    want += [x for x in own[k] if x not in want]
                if not isinstance(got, list) or Counter(map(str, got)) != Counter(map(str, want)):
                    stale = isinstance(got, list) and any(_is_stale(x, vis) for x in got)
                    out.append(viol("C16/stale-iteration-value" if stale else "C16/list-mismatch", f"{ref}@{rec['iter']} list {k}: saw {got}, ancestors hold {want}"))
                continue
            if shadow:
                if got != own[k]:
                    out.append(viol("C16/own-value-not-winning", f"{ref} sets {k}={own[k]} itself but tasks saw {got}"))
                continue
            if ordered:
                nearest = next(p for p in prods if all(q == p or q in anc[p] for q in prods))
                want = vis[nearest][k]
                if got != want:
                    stale = _is_stale(got, vis)
                    out.append(viol("C16/stale-iteration-value" if stale else "C16/wrong-producer", f"{ref}@{rec['iter']} key {k}: saw {got}, nearest producer {nearest} holds {want}"))
            else:
                maximal = [p for p in prods if not any(p in anc[q] for q in prods if q != p)]
                cands = {str(vis[p][k]) for p in maximal}
                if str(got) not in cands:
                    stale = _is_stale(got, vis)
                    out.append(viol("C16/stale-iteration-value" if stale else "C16/wrong-producer", f"{ref}@{rec['iter']} key {k}: saw {got}, candidates {sorted(cands)}"))
        if rec["iter"] > 0:
            obs["later_iteration_executions"] += 1
        obs["executions_checked"] += 1
    return out, obs, keys


def _is_stale(value, vis: dict) -> bool:
    """value is a tag '<prod>.<key>@<i>' whose producer currently holds a later iteration."""
    if not (isinstance(value, str) and "@" in value):
        return False
    head, it = value.rsplit("@", 1)
    prod = head.split(".", 1)[0]
    cur = vis.get(prod)
    if not cur:
        return False
    for v in cur.values():
        for item in v if isinstance(v, list) else [v]:
            if isinstance(item, str) and item.startswith(prod + ".") and "@" in item:
                try:
                    return int(it) < int(item.rsplit("@", 1)[1])
                except ValueError:
                    return False
    return False


# ---------------------------------------------------------------------------
# reducers
# ---------------------------------------------------------------------------

ORDER_FREE = ["sum", "max", "min", "collect", "merge"]


def _canon(name: str, v):
    if name in ("collect", "append", "extend") and isinstance(v, list):
        return sorted(map(str, v))
    if isinstance(v, float):
        return round(v, 6)  # float addition is not associative: compare to 1e-6
    return v


def reducer_case(case: dict) -> dict:
    from stabilize.reducers import apply_output_reducers

    rng = random.Random(case["seed"] * 97 + case["i"])
    obs: Counter = Counter()
    out = []
    keys = set()
    # direct API, every order
    for _ in range(6):
        nb = rng.randint(2, 4)
        red = {"n": rng.choice(["sum", "max", "min"]), "c": "collect", "m": "merge"}
        branches = []
        for b in range(nb):
            o = {}
            if rng.random() < 0.8:
                o["n"] = rng.choice([rng.randint(-5, 50), round(rng.uniform(-3, 3), 3)])
            if rng.random() < 0.8:
                o["c"] = rng.choice([f"v{b}", [f"v{b}a", f"v{b}b"]])
            if rng.random() < 0.8:
                o["m"] = {f"key{b}": b}
            branches.append(o)
        base = None
        for perm in itertools.permutations(branches):
            r = apply_output_reducers(red, list(perm))
            c = {k: _canon(red[k], v) for k, v in r.items()}
            obs["reducer_orders"] += 1
            if base is None:
                base = c
            elif c != base:
                out.append(viol("C16/reducer-order-dependent", f"{red}: {base} vs {c} for another branch order"))
                break
        keys.add(f"red:{nb}:{red['n']}")
    # engine level: fan-in with reducers, all completion orders of the branches
    nb = rng.randint(2, 3)
    ups = [f"u{b}" for b in range(nb)]
    vals = [rng.randint(1, 20) for _ in ups]
    stages = [specs.st("r")]
    for u, v in zip(ups, vals):
        stages.append(specs.st(u, ["r"], [{"kind": "poll", "n": 0, "raw": {"score": v, "cand": f"c_{u}"}}]))
    stages.append(specs.st("j", ups, [dict(specs.OK, out=["j_o"])], reducers={"score": rng.choice(["sum", "max", "min"]), "cand": "collect"}))
    base = None
    for perm in itertools.permutations(range(nb)):
        # completion order = perm: branch perm[0] polls 0 times, perm[1] once, ...
        sp = {"name": "fanin", "confluent": True, "stages": [dict(s) for s in stages]}
        for rank, b in enumerate(perm):
            st_ = dict(sp["stages"][1 + b])
            st_["t"] = [dict(st_["t"][0], n=rank)]
            sp["stages"][1 + b] = st_
        run = delivery_run(sp)
        obs["evaluations"] += 1
        recs = [r for r in run.ledger if r["ref"] == "j"]
        if not recs:
            out.append(viol("C16/join-did-not-run", f"{run.state['wf']}"))
            continue
        got = {"score": recs[0]["ctx"].get("score"), "cand": sorted(map(str, recs[0]["ctx"].get("cand") or []))}
        name = sp["stages"][-1]["reducers"]["score"]
        want_score = {"sum": sum(vals), "max": max(vals), "min": min(vals)}[name]
        if got["score"] != want_score or got["cand"] != sorted(f"c_{u}" for u in ups):
            out.append(viol("C16/reducer-result-wrong", f"{name} over {vals}: join saw {got}"))
        obs["reducer_orders"] += 1
        if base is None:
            base = got
        elif got != base:
            out.append(viol("C16/reducer-order-dependent", f"engine fan-in: {base} vs {got}"))
    # engine level: the fan-in with reducers sits inside a jump loop and the branches produce different
    # (or no) values per iteration - the join must see the reduction of THIS iteration's branch outputs only
    names = {"score": rng.choice(["sum", "max", "min"]), "cand": "collect"}
    iters = rng.randint(1, 2)
    per_iter: list[dict[str, dict]] = []
    for it in range(iters + 1):
        d = {}
        for u in ups:
            if rng.random() < (0.9 if it == 0 else 0.45):
                d[u] = {"score": rng.randint(1, 20), "cand": f"c_{u}@{it}"}
        per_iter.append(d)
    stages = [specs.st("r")]
    for u in ups:
        stages.append(specs.st(u, ["r"], [{"kind": "ok", "raw_by_iter": {str(it): per_iter[it].get(u, {}) for it in range(iters + 1)}}]))
    stages.append(specs.st("j", ups, [dict(specs.OK, out=["j_o"])], reducers=dict(names)))
    stages.append(specs.st("z", ["j"], [{"kind": "jump", "to": "r", "times": iters, "out": ["z_o"]}]))
    run = delivery_run({"name": "fanin_in_loop", "confluent": True, "stages": stages}, order=rng.choice(["fifo", "random"]), seed=rng.randrange(1 << 30), max_steps=900)
    obs["evaluations"] += 1
    recs = [r for r in run.ledger if r["ref"] == "j"]
    if len(recs) != iters + 1:
        v = oracles.attribute([viol("C16/join-did-not-run", f"fan-in inside a loop: join executed {len(recs)} times, expected {iters + 1} ({run.state['wf']})")], run, "C16")
        out += v
    for r in recs:
        it = r["iter"]
        vals_it = [d["score"] for d in per_iter[it].values()] if it < len(per_iter) else []
        want_score = {"sum": sum(vals_it), "max": max(vals_it), "min": min(vals_it)}[names["score"]] if vals_it else None
        want_cand = sorted(d["cand"] for d in per_iter[it].values()) if it < len(per_iter) else []
        got_score = r["ctx"].get("score")
        got_cand = sorted(map(str, r["ctx"].get("cand") or []))
        obs["reducer_iterations_checked"] += 1
        keys.add(f"redloop:{names['score']}:{it}:{len(vals_it)}")
        if got_score != want_score or got_cand != want_cand:
            out.append(viol("C16/reducer-value-of-another-iteration", f"iteration {it}: branches produced {per_iter[it] if it < len(per_iter) else {}}, join saw score={got_score} cand={got_cand} (expected {want_score}, {want_cand}); earlier iterations {per_iter[:it]}"))
    return {"violations": out[:5], "obs": dict(obs), "keys": sorted(keys)}


def _race(case: dict) -> dict:
    """The visibility model checked on runs by 2-4 worker threads interleaved at SQL-statement granularity
    (sibling branches really overlap, joins start while other branches still write)."""
    from .. import interleave as il

    spec = _spec_for(case["spec_i"], case["seed"])
    rng = random.Random(case["seed"] * 5501 + case["spec_i"])
    run, info = il.race_run(spec, rng, max_msgs=1200)
    obs: Counter = Counter({"evaluations": 1})
    if run is None:
        obs["scheduler_failed"] += 1
        return {"violations": [], "obs": dict(obs), "keys": [], "inconclusive": info.get("failed")}
    obs["interleaved_runs"] += 1
    v, o, k = visibility_oracle(spec, run)
    v = oracles.attribute(v, run, "C16") if not run.quiescent or run.state["wf"] == "RUNNING" else v
    obs.update(o)
    seen = set()
    uniq = []
    for x in v:
        if x["sig"] not in seen:
            seen.add(x["sig"])
            x.update(spec=spec["name"], interleaved=True, trace_hash=info["trace_hash"])
            uniq.append(x)
    return {"violations": uniq, "obs": dict(obs), "keys": sorted("race:" + x for x in k)}


def _pair(case: dict) -> dict:
    """StartStage of a stage whose planning merges ancestor outputs (scalars, lists, an own list, a reducer
    key) x a persistent SignalStage for the same stage being buffered by another worker: the signal's write
    lands between the claim and the plan commit in some schedules, so the plan has to be persisted on a row
    somebody else changed - what the tasks then see must still be the merged view."""
    import os

    from .. import interleave as il
    from ..world import World

    variant = case["variant"]
    if variant == 3:
        return _pair_reduce_vs_last_branch(case)
    if variant == 2:
        stages = [specs.st("r"), specs.st("u0", ["r"], [{"kind": "ok", "raw": {"score": 4}}]), specs.st("u1", ["r"], [{"kind": "ok", "raw": {"score": 7}}]), specs.st("b", ["u0", "u1"], [dict(specs.OK, out=["b_o"])], reducers={"score": "sum"}, ctx={"score": 0})]
    else:
        stages = [
            specs.st("a", [], [{"kind": "ok", "out": ["a_o", "k1"], "lout": ["l1"]}]),
            specs.st("m", ["a"], [{"kind": "ok", "out": ["m_o", "k2"], "lout": ["l1", "l2"]}]),
            specs.st("b", ["m"], [dict(specs.OK, out=["b_o"]), dict(specs.OK, out=["b_o2"])], ctx={"l1": ["own.b"], "k2": "own.b"} if variant == 0 else {"l2": ["own.b2"]}),
        ]
    spec = {"name": f"pairvis{variant}", "confluent": True, "stages": stages}
    w = World()
    cut = None
    try:
        w.submit(spec)
        for _ in range(200):
            rows = w.rows()
            if not rows:
                break
            bid = w.snapshot_state()["stages"]["b"]["id"]
            tgt = [r for r in rows if r["type"] == "StartStage" and (__import__("json").loads(r["payload"]).get("stage_id") == bid)]
            others = [r for r in w.eligible(rows) if r not in tgt]
            if tgt and not others:
                w.signal("b", "note", {"id": "sX"}, True)
                rows = w.rows()
                sig = [r for r in rows if r["type"] == "SignalStage"]
                path = os.path.join(il.env.scratch_dir(), f"cut-{os.getpid()}-{random.randrange(1 << 40)}.db")
                w.store._get_connection().commit()
                w.copy_db(path)
                cut = (path, [tgt[0]["id"], sig[0]["id"]], len(w.ledger), [dict(r) for r in w.ledger])
                break
            w.deliver((others or w.eligible(rows))[0]["id"])
    finally:
        w.close()
    obs: Counter = Counter()
    keys: set = set()
    out: list[dict] = []
    if cut is None:
        return {"violations": [], "obs": {"cut_point_not_reached": 1}, "keys": []}
    db, rows, _, pre = cut
    try:
        na, nb = il.solo_length(db, rows[0]), il.solo_length(db, rows[1])
        rng = random.Random(case["seed"] * 83 + variant)
        for sc in il.bound_schedules(na, nb, 2, sample=case["sample"], rng=rng):
            run, info = il.run_pair(db, rows, il.Segments(sc))
            obs["evaluations"] += 1
            if run is None:
                obs["scheduler_watchdog"] += 1
                continue
            if info["switches"]:
                obs["plan_x_signal_schedules_with_switch"] += 1
                keys.add(f"pair:{variant}:{info['trace_hash']}")
            # the pre-cut executions (ancestors' outputs) belong to the history the oracle needs
            run.ledger = [dict(r) for r in pre] + [dict(r, ord=r["ord"] + len(pre)) for r in run.ledger]
            recs = [r for r in run.ledger if r["ref"] == "b"]
            if not recs:
                out.append(viol("C16/stage-did-not-run", f"b never executed ({run.state['wf']}); schedule {sc}"))
                continue
            if variant == 2:
                obs["keys_checked"] += 1
                if recs[0]["ctx"].get("score") != 11:
                    out.append(viol("C16/reducer-result-wrong", f"sum over [4, 7]: join saw {recs[0]['ctx'].get('score')} (plan persisted after a concurrent signal write); schedule {sc}"))
            else:
                v, o, _ = visibility_oracle(spec, run)
                obs.update(o)
                for x in v:
                    x["schedule"] = sc
                out += v
    finally:
        os.unlink(db)
    seen = set()
    uniq = []
    for x in out:
        if x["sig"] not in seen:
            seen.add(x["sig"])
            x["spec"] = spec["name"]
            uniq.append(x)
    return {"violations": uniq, "obs": dict(obs), "keys": sorted(keys)}


def _pair_reduce_vs_last_branch(case: dict) -> dict:
    """AND join with reducers: the StartStage(join) pushed by the branch that finished first, handled by W0, while a
    second worker takes the LAST branch through its final RunTask, CompleteTask and CompleteStage - at every
    statement boundary of W0's handling.  Where the join is loaded before the last branch produced its outputs but
    judged ready afterwards, the reducers must still see every branch."""
    import json as _json
    import os

    from .. import interleave as il
    from ..world import PAST, World

    both = bool(case["seed"] % 2)
    stages = [specs.st("r"), specs.st("u0", ["r"], [{"kind": "ok", "raw": {"score": 4, "tags": ["x"]}}]), specs.st("u1", ["r"], [dict(specs.OK), {"kind": "ok", "raw": {"score": 7, "tags": ["y"]}}]), specs.st("b", ["u0", "u1"], [dict(specs.OK, out=["b_o"])], reducers={"score": "sum", "tags": "collect"} if both else {"score": "sum"}, ctx={"score": 0})]
    spec = {"name": "pairvis3", "confluent": True, "stages": stages}
    w = World()
    cut = None
    try:
        w.submit(spec)
        for _ in range(200):
            rows = w.rows()
            if not rows:
                break
            st = w.snapshot_state()["stages"]
            bid, u1id = st["b"]["id"], st["u1"]["id"]
            ss = [r for r in rows if r["type"] == "StartStage" and _json.loads(r["payload"]).get("stage_id") == bid]
            last = [r for r in rows if r["type"] == "RunTask" and _json.loads(r["payload"]).get("stage_id") == u1id and st["u1"]["tasks"][0][1] == "SUCCEEDED"]
            others = [r for r in w.eligible(rows) if r not in ss and r not in last]
            if ss and last and not others:
                path = os.path.join(il.env.scratch_dir(), f"cut-{os.getpid()}-{random.randrange(1 << 40)}.db")
                w.store._get_connection().commit()
                w.copy_db(path)
                cut = (path, ss[0]["id"], u1id)
                break
            if not others:
                break
            w.deliver(others[0]["id"])
    finally:
        w.close()
    obs: Counter = Counter()
    keys: set = set()
    out: list[dict] = []
    if cut is None:
        return {"violations": [], "obs": {"cut_point_not_reached": 1}, "keys": []}
    db, row, u1id = cut
    FAR_ = "2999-01-01T00:00:00+00:00"

    def mk(world):
        def body() -> None:
            c = world.queue._get_connection()
            for _ in range(4):
                try:
                    c.execute("UPDATE queue_messages SET locked_until = ? WHERE locked_until IS NULL AND (json_extract(payload, '$.stage_id') != ? OR message_type = 'StartStage')", (FAR_, u1id))
                    c.execute("UPDATE queue_messages SET deliver_at = ? WHERE json_extract(payload, '$.stage_id') = ? AND message_type != 'StartStage'", (PAST, u1id))
                    c.commit()
                    msg = world.queue.poll_one()
                finally:
                    try:
                        c.execute("UPDATE queue_messages SET locked_until = NULL WHERE locked_until = ?", (FAR_,))
                        c.commit()
                    except Exception:
                        c.rollback()
                if msg is None:
                    break
                il.worker_body(world, msg)()

        return body

    try:
        na = il.solo_length(db, row)
        for s1 in range(0, na + 3):
            run, info = il.run_pair(db, [row], il.Segments([("W0", s1), ("W9", 10**6), ("W0", 10**6)]), extra_bodies={"W9": mk})
            obs["evaluations"] += 1
            if run is None:
                obs["scheduler_watchdog"] += 1
                continue
            obs["plan_x_last_branch_schedules_with_switch"] += 1
            keys.add(f"pair:3:{both}:{s1}")
            recs = [r for r in run.ledger if r["ref"] == "b"]
            if not recs:
                out.append(viol("C16/stage-did-not-run", f"b never executed ({run.state['wf']}); W0 preempted after {s1}/{na} statements"))
                continue
            obs["keys_checked"] += 1
            got = recs[0]["ctx"].get("score")
            if got != 11:
                out.append(viol("C16/reducer-result-wrong:last-branch-finished-while-the-join-was-being-started", f"sum over [4, 7]: join saw {got}; StartStage(join) preempted after {s1}/{na} statements, meanwhile the last branch ran to completion"))
            if both:
                tags = recs[0]["ctx"].get("tags")
                if sorted(tags or []) != ["x", "y"]:
                    out.append(viol("C16/reducer-result-wrong:last-branch-finished-while-the-join-was-being-started", f"collect over ['x'], ['y']: join saw {tags}; W0 preempted after {s1}/{na} statements"))
    finally:
        os.unlink(db)
    seen = set()
    uniq = []
    for x in out:
        if x["sig"] not in seen:
            seen.add(x["sig"])
            x["spec"] = spec["name"]
            uniq.append(x)
    return {"violations": uniq, "obs": dict(obs), "keys": sorted(keys)}


def run_case(case: dict) -> dict:
    if case["kind"] == "reducers":
        return reducer_case(case)
    if case["kind"] == "pair":
        return _pair(case)
    if case["kind"] == "race":
        return _race(case)
    spec = _spec_for(case["spec_i"], case["seed"])
    rng = random.Random(case["seed"] * 3 + case["spec_i"])
    obs: Counter = Counter()
    keys: set = set()
    violations = []
    sample = None
    for j in range(case["nsched"]):
        order = "fifo" if j == 0 else rng.choice(["random", "lifo"])
        run = delivery_run(spec, seed=rng.randrange(1 << 30), order=order, noack_p=0.0 if j == 0 else rng.choice([0.0, 0.2]), max_steps=1200)
        obs["evaluations"] += 1
        v, o, k = visibility_oracle(spec, run)
        v = oracles.attribute(v, run, "C16") if not run.quiescent or run.state["wf"] == "RUNNING" else v
        obs.update(o)
        keys |= k
        for x in v:
            x["spec"] = spec["name"]
            x["order"] = order
        violations += v
        if sample is None and run.ledger:
            r = run.ledger[-1]
            sample = {"spec": spec["name"], "execution": f"{r['ref']}.t{r['task']}@{r['iter']}", "context_seen": {k2: strip_ord(v2) for k2, v2 in r["ctx"].items() if not k2.startswith("_")}}
    # one witness per signature is enough
    seen = set()
    uniq = []
    for x in violations:
        if x["sig"] not in seen:
            seen.add(x["sig"])
            uniq.append(x)
    return {"violations": uniq, "obs": dict(obs), "keys": sorted(keys), "sample": sample}

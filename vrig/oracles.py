"""Oracles shared by several checks (all work on the audit log + ledger + final state)."""

from __future__ import annotations

import bisect
import json
from collections import Counter, defaultdict
from typing import Any

from .framework import viol

COMPLETE = {"SUCCEEDED", "FAILED_CONTINUE", "TERMINAL", "CANCELED", "STOPPED", "SKIPPED"}
CONTINUABLE = {"SUCCEEDED", "FAILED_CONTINUE", "SKIPPED", "REDIRECT"}
HALT = {"TERMINAL", "CANCELED", "STOPPED"}
REARM_HANDLERS = {"JumpToStage", "RestartStage"}


def valid_transitions() -> dict[str, set[str]]:
    from stabilize.models.status import VALID_TRANSITIONS

    return {k.name: {v.name for v in vs} for k, vs in VALID_TRANSITIONS.items()}


class Groups:
    """Commit groups: contiguous seq ranges written by one commit."""

    def __init__(self, commits: list[tuple]) -> None:
        self.commits = [c for c in commits if c[2] is not None and c[2] >= 0]
        self.maxes = [c[2] for c in self.commits]

    def of(self, seq: int) -> int:
        """Index (into self.commits) of the commit that made `seq` durable; len() if none yet."""
        return bisect.bisect_left(self.maxes, seq)

    def tag(self, g: int) -> Any:
        return self.commits[g][3] if 0 <= g < len(self.commits) else None

    def thread(self, g: int) -> Any:
        return self.commits[g][1] if 0 <= g < len(self.commits) else None


def group_marks(audit: list[dict], groups: Groups) -> dict[int, set[str]]:
    out: dict[int, set[str]] = defaultdict(set)
    for r in audit:
        if r["kind"] == "mark" and r["op"] == "ins":
            out[groups.of(r["seq"])].add(r["b"] or "")
    return out


def is_rearm_group(g: int, groups: Groups, marks: dict[int, set[str]]) -> bool:
    if marks.get(g, set()) & REARM_HANDLERS:
        return True
    tag = groups.tag(g)
    return bool(tag) and tag[0] in REARM_HANDLERS


def transition_check(audit: list[dict], commits: list[tuple], prop: str = "C06") -> tuple[list[dict], Counter]:
    """Every durable status change is a table transition; complete is final,
    except inside a commit group that carries a jump / restart mark."""
    vt = valid_transitions()
    groups = Groups(commits)
    marks = group_marks(audit, groups)
    edges: Counter = Counter()
    out: list[dict] = []
    for r in audit:
        if r["kind"] != "status" or r["op"] not in ("wf", "stage", "task"):
            continue
        old, new = r["c"], r["d"]
        if old == new:
            continue
        kind = r["op"]
        g = groups.of(r["seq"])
        rearm = is_rearm_group(g, groups, marks)
        edges[f"{kind}:{old}->{new}" + ("(rearm)" if rearm and old in COMPLETE else "")] += 1
        legal = new in vt.get(old, set())
        if rearm and (new == "NOT_STARTED" or (kind == "wf" and new == "RUNNING")):
            continue  # the explicit re-arm
        if rearm and legal:
            continue
        if old in COMPLETE:
            out.append(
                viol(
                    f"{prop}/complete-not-final:{kind}:{old}->{new}",
                    f"{kind} {r['f'] or r['a']} left completed status {old} for {new} at seq {r['seq']} "
                    f"(commit by {groups.tag(g)}; marks {sorted(marks.get(g, []))})",
                    row=r,
                )
            )
        elif not legal:
            out.append(
                viol(
                    f"{prop}/illegal-transition:{kind}:{old}->{new}",
                    f"{kind} {r['f'] or r['a']} changed {old}->{new} at seq {r['seq']}, not in the transition table "
                    f"(commit by {groups.tag(g)})",
                    row=r,
                )
            )
    return out, edges


class Timeline:
    """Status of every entity as a function of the audit sequence number."""

    def __init__(self, audit: list[dict]) -> None:
        self.hist: dict[str, list[tuple[int, str]]] = defaultdict(list)
        self.meta: dict[str, dict] = {}
        for r in audit:
            if r["kind"] != "status":
                continue
            if r["op"].endswith("_ins"):
                self.hist[r["a"]].append((r["seq"], r["d"]))
                self.meta[r["a"]] = {"kind": r["op"][:-4], "owner": r["b"], "name": r["f"], "parent": r.get("g")}
            else:
                self.hist[r["a"]].append((r["seq"], r["d"]))

    def at(self, eid: str, seq: int) -> str | None:
        h = self.hist.get(eid)
        if not h:
            return None
        i = bisect.bisect_right([s for s, _ in h], seq) - 1
        return h[i][1] if i >= 0 else None

    def final(self, eid: str) -> str | None:
        h = self.hist.get(eid)
        return h[-1][1] if h else None


def stage_ids(audit: list[dict]) -> dict[str, str]:
    """ref_id -> stage id for top-level stages (from insert rows)."""
    out = {}
    for r in audit:
        if r["kind"] == "status" and r["op"] == "stage_ins":
            out[r["f"]] = r["a"]
    return out


def starts_per_iteration(audit: list[dict]) -> dict[str, list[int]]:
    """stage id -> number of NOT_STARTED->RUNNING rows in each iteration
    (iterations are separated by ->NOT_STARTED re-arm rows)."""
    out: dict[str, list[int]] = defaultdict(lambda: [0])
    for r in audit:
        if r["kind"] == "status" and r["op"] == "stage":
            if r["d"] == "NOT_STARTED":
                out[r["a"]].append(0)
            elif r["c"] == "NOT_STARTED" and r["d"] == "RUNNING":
                out[r["a"]][-1] += 1
    return out


def counts_for(spec: dict, c: Counter) -> Counter:
    """Execution counts as the spec allows them to be compared: where per-stage iteration labels legitimately depend on
    the schedule (spec['loose_iter_labels'], see specs.or_split_in_loop), per (stage, task) over all iterations."""
    if not (spec or {}).get("loose_iter_labels"):
        return c
    out: Counter = Counter()
    for (r, t, _i), n in c.items():
        out[(r, t, "*")] += n
    return out


def exec_counts(ledger: list[dict]) -> Counter:
    c: Counter = Counter()
    for r in ledger:
        c[(r["ref"], r["task"], r["iter"])] += 1
    return c


def wait_budget_gave_up(run: Any) -> bool:
    """True when the run ended through a wait budget (handler_config.max_stage_wait_retries, 6 in the harness
    environment instead of 240): a StartStage gave up waiting for its upstreams, or a CompleteWorkflow poll
    chain wrote TERMINAL while no stage had failed.  Such an ending is legal engine behaviour whose timing the
    harness's discrete-event clock decides; outcome-equality oracles do not apply to it."""
    for s in (run.state.get("stages") or {}).values():
        if "Exceeded max retries" in str((s.get("context") or {}).get("exception")):
            return True
    groups = Groups(run.commits)
    tl = None
    for a in run.audit:
        if a["kind"] == "status" and a["op"] == "wf" and a.get("d") == "TERMINAL":
            tag = groups.tag(groups.of(a["seq"]))
            if tag and tag[0] == "CompleteWorkflow":
                tl = tl or Timeline(run.audit)
                sts = [tl.at(eid, a["seq"]) for eid, m in tl.meta.items() if m["kind"] == "stage"]
                if not any(x in ("TERMINAL", "CANCELED", "STOPPED") for x in sts) and any(x in ("RUNNING", "NOT_STARTED") for x in sts):
                    return True
    return False


def _stuck_mechanism(stages: dict) -> str:
    """Mechanism classifier for a wedged (quiescent, non-final, not waiting) workflow."""
    for ref, v in stages.items():
        if v["status"] != "RUNNING":
            continue
        kids = {k: c for k, c in stages.items() if k.startswith(ref + "<before")}
        if kids and any(c["status"] == "FAILED_CONTINUE" for c in kids.values()) and all(t[1] == "NOT_STARTED" for t in v["tasks"]):
            return ":before-stage-failed-continue"
    if any(v["status"] == "NOT_STARTED" and ("_buffered_signals" in v["context"]) for v in stages.values()):
        return ":stage-with-buffered-signal-never-started"
    return ""


def quiescence_check(run: Any, prop: str, spec: dict | None = None) -> list[dict]:
    """C05-style predicates on a drained engine."""
    out = []
    st = run.state
    if run.queue_left:
        return out
    wf = st["wf"]
    stages = st["stages"]
    top = {k: v for k, v in stages.items() if not v["synthetic"]}
    waiting = any(v["status"] in ("SUSPENDED", "PAUSED") for v in stages.values())
    if wf not in COMPLETE:
        if not (waiting or wf in ("BUFFERED", "PAUSED")):
            out.append(
                viol(
                    f"{prop}/stuck-nonfinal{_stuck_mechanism(stages)}",
                    f"queue drained, workflow {wf}, no stage waiting: {json.dumps({k: v['status'] for k, v in stages.items()})}",
                )
            )
    else:
        running = [k for k, v in stages.items() if v["status"] == "RUNNING"]
        if running:
            out.append(viol(f"{prop}/running-stage-in-final-workflow", f"workflow {wf} but stages {running} RUNNING"))
    if wf == "SUCCEEDED":
        bad = {k: v["status"] for k, v in top.items() if v["status"] not in ("SUCCEEDED", "FAILED_CONTINUE", "SKIPPED")}
        if bad:
            stopped = {k for k, s in bad.items() if s == "STOPPED"}
            rest = {k: s for k, s in bad.items() if s != "STOPPED"}
            # mechanism: a STOPPED stage lets CompleteWorkflow report SUCCEEDED; whatever had not run
            # yet stays NOT_STARTED (or is CANCELED by the late CancelStage of the stopped stage's failure path)
            only_stopped = bool(stopped) and all(s in ("NOT_STARTED", "CANCELED") for s in rest.values())
            sig = f"{prop}/succeeded-with-stopped-stage" if only_stopped else f"{prop}/succeeded-with-unfinished-stage"
            out.append(viol(sig, f"workflow SUCCEEDED but {bad}"))
    term = [k for k, v in top.items() if v["status"] == "TERMINAL"]
    if term and wf in COMPLETE and wf not in ("TERMINAL",):
        # a terminally failed top-level stage => the workflow is reported failed
        if wf == "SUCCEEDED":
            out.append(viol(f"{prop}/terminal-stage-workflow-succeeded", f"stages {term} TERMINAL, workflow {wf}"))
        elif wf == "CANCELED" and not st.get("canceled"):
            out.append(viol(f"{prop}/terminal-stage-workflow-not-failed", f"stages {term} TERMINAL, workflow {wf}"))
    if run.dlq and wf not in COMPLETE:
        out.append(viol(f"{prop}/message-in-dlq", f"{[(d['type'], d['error']) for d in run.dlq][:3]}"))
    elif run.dlq:
        # a handler that kept raising until its message was dead-lettered, in a workflow that nevertheless is
        # final with nothing running: noise for an operator, but none of the statement's predicates is violated
        run.dlq_after_final = True
    if run.in_txn:
        out.append(viol(f"{prop}/open-transaction-at-quiescence", "worker connection still in a transaction"))
    return out


def anc_view(ctx: dict, keys: set[str]) -> dict:
    """The ancestor-derived part of a context: the given keys, ordinals stripped."""
    from .vtask import strip_ord

    return {k: strip_ord(ctx[k]) for k in sorted(keys) if k in ctx}


def output_keys(spec: dict) -> dict[str, set[str]]:
    """ref -> output keys its tasks may produce."""
    out: dict[str, set[str]] = {}
    for s in spec["stages"]:
        ks: set[str] = set()
        for b in s.get("t") or []:
            ks.update(b.get("out") or [])
            ks.update(b.get("lout") or [])
            ks.update((b.get("raw") or {}).keys())
            if b.get("kind") == "suspend":
                ks.add("sig_seen")
        out[s["ref"]] = ks
    return out


def stale_redirect_witness(run: Any) -> str | None:
    """Mechanism classifier: a CompleteTask(REDIRECT) produced in loop iteration i is
    delivered after the jump re-armed its stage and the same task is RUNNING again in
    iteration i+1; it marks that task REDIRECT and the stage wedges.

    Decided from the audit log only: a task row RUNNING->REDIRECT committed by a
    CompleteTask message whose queue row was inserted *before* the last re-arm
    (->NOT_STARTED) of that task."""
    groups = Groups(run.commits)
    since = getattr(run, "since", 0)  # resumed runs: rows written before the crash belong to no commit of this world
    ins_seq = {a["a"]: a["seq"] for a in run.audit if a["kind"] == "queue" and a["op"] == "ins"}
    marks = {}
    for a in run.audit:
        if a["seq"] > since and a["kind"] == "mark" and a["op"] == "ins" and a["b"] == "CompleteTask":
            marks.setdefault(groups.of(a["seq"]), a["a"])
    last_rearm: dict[str, int] = {}
    for a in run.audit:
        if a["kind"] != "status" or a["op"] != "task":
            continue
        if a["seq"] <= since:
            if a["d"] == "NOT_STARTED":
                last_rearm[a["a"]] = a["seq"]
            continue
        if a["d"] == "NOT_STARTED":
            last_rearm[a["a"]] = a["seq"]
        elif a["c"] == "RUNNING" and a["d"] == "REDIRECT":
            mid = marks.get(groups.of(a["seq"]))
            born = ins_seq.get(str(mid)) if mid is not None else None
            if born is not None and a["a"] in last_rearm and born < last_rearm[a["a"]]:
                return f"task {a['f']} of stage {a['b']} set REDIRECT at seq {a['seq']} by CompleteTask row {mid} inserted at seq {born}, before the re-arm at seq {last_rearm[a['a']]}"
    return None


def rearmed_running_stage_witness(run: Any) -> str | None:
    """Mechanism classifier: a JumpToStage re-armed a stage OTHER than its own source while that
    stage was RUNNING (a parallel branch inside the loop body), and a StartTask / RunTask /
    CompleteTask / CompleteStage message of that stage, queued before the re-arm, was handled after
    it: messages carry no iteration, so the stale one acts on the re-armed stage."""
    groups = Groups(run.commits)
    since = getattr(run, "since", 0)
    qins: dict[str, dict] = {}
    qdel: dict[str, int] = {}
    for a in run.audit:
        if a["kind"] == "queue" and a["op"] == "ins":
            qins[str(a["a"])] = a
        elif a["kind"] == "queue" and a["op"] == "del":
            qdel[str(a["a"])] = a["seq"]
    id2ref = {v["id"]: k for k, v in run.state.get("stages", {}).items()}
    for a in run.audit:
        if a["seq"] <= since or a["kind"] != "status" or a["op"] != "stage" or a["c"] != "RUNNING" or a["d"] != "NOT_STARTED":
            continue
        g = groups.of(a["seq"])
        tag = groups.tag(g)
        if not tag or tag[0] != "JumpToStage":
            continue
        try:
            src = json.loads(qins[str(tag[1])]["d"]).get("stage_id")
        except Exception:
            src = None
        if a["a"] == src:
            continue
        for rid, q in qins.items():
            if q["c"] not in ("StartTask", "RunTask", "CompleteTask", "CompleteStage") or q["seq"] >= a["seq"]:
                continue
            try:
                sid = json.loads(q["d"]).get("stage_id")
            except Exception:
                continue
            if sid == a["a"] and qdel.get(rid, 1 << 60) > a["seq"]:
                return f"JumpToStage row {tag[1]} re-armed stage {id2ref.get(a['a'], a['a'])} while it was RUNNING (seq {a['seq']}); its {q['c']} row {rid}, queued at seq {q['seq']}, was still pending and was handled on the re-armed stage"
    return None


def stale_skip_witness(run: Any) -> str | None:
    """Mechanism classifier: a SkipStage decided by an OR-split in loop iteration i is still queued when a jump
    re-arms the split; delivered afterwards (messages carry no iteration) it skips the branch in iteration i+1,
    whose own StartStage is then ignored."""
    groups = Groups(run.commits)
    jump_seqs = [a["seq"] for a in run.audit if a["kind"] == "mark" and a["op"] == "ins" and a["b"] == "JumpToStage"]
    if not jump_seqs:
        return None
    pushed = {str(a["a"]): a["seq"] for a in run.audit if a["kind"] == "queue" and a["op"] == "ins" and a["c"] == "SkipStage"}
    for a in run.audit:
        if a["kind"] == "status" and a["op"] == "stage" and a["d"] == "SKIPPED":
            tag = groups.tag(groups.of(a["seq"]))
            if tag and tag[0] == "SkipStage" and str(tag[1]) in pushed:
                p = pushed[str(tag[1])]
                between = [j for j in jump_seqs if p < j < a["seq"]]
                if between:
                    return f"SkipStage row {tag[1]} was pushed at seq {p} (by the OR-split of the previous iteration), a jump was applied at seq {between[0]}, and the message skipped its stage at seq {a['seq']} in the next iteration"
    return None


def stale_message_after_rearm_witness(run: Any) -> str | None:
    """Mechanism classifier (same root as the two above: messages carry no iteration): a StartTask / RunTask /
    CompleteTask / CompleteStage / CancelStage message of a stage was queued BEFORE a jump or an operator restart re-armed that
    stage (whatever its status then: RUNNING, CANCELED, ...) and took effect on the re-armed stage AFTERWARDS."""
    import json as _json

    groups = Groups(run.commits)
    rearms: dict[str, list[int]] = defaultdict(list)
    for a in run.audit:
        if a["kind"] == "status" and a["op"] == "stage" and a["d"] == "NOT_STARTED":
            tag = groups.tag(groups.of(a["seq"]))
            if tag and tag[0] in ("JumpToStage", "RestartStage"):
                rearms[a["a"]].append(a["seq"])
    if not rearms:
        return None
    pushed: dict[str, tuple[int, str, str]] = {}
    for a in run.audit:
        if a["kind"] == "queue" and a["op"] == "ins" and a["c"] in ("StartTask", "RunTask", "CompleteTask", "CompleteStage", "CancelStage"):
            try:
                sid = _json.loads(a["d"] or "{}").get("stage_id")
            except Exception:
                sid = None
            if sid:
                pushed[str(a["a"])] = (a["seq"], a["c"], sid)
    for a in run.audit:
        if a["kind"] != "status" or a["op"] not in ("stage", "task"):
            continue
        tag = groups.tag(groups.of(a["seq"]))
        if not tag or str(tag[1]) not in pushed or pushed[str(tag[1])][1] != tag[0]:
            continue
        pseq, typ, sid = pushed[str(tag[1])]
        between = [r for r in rearms.get(sid, ()) if pseq < r < a["seq"]]
        if between:
            return f"{typ} row {tag[1]} was queued at seq {pseq}, its stage was re-armed at seq {between[0]} (jump / operator restart), and the message took effect on the re-armed stage at seq {a['seq']}"
    return None


def attribute(violations: list[dict], run: Any, prop: str) -> list[dict]:
    """Re-sign the violations of a run whose failure is explained by a classified mechanism."""
    if not violations:
        return violations
    w = stale_redirect_witness(run)
    if w:
        return [viol(f"{prop}/stale-redirect-completion-overtakes-next-iteration", f"{w}; symptoms: {[v['sig'] for v in violations][:4]}")]
    w = rearmed_running_stage_witness(run)
    if w:
        return [viol(f"{prop}/jump-rearmed-a-running-stage:stale-message-of-the-previous-iteration-handled", f"{w}; symptoms: {[v['sig'] for v in violations][:4]}")]
    w = stale_skip_witness(run)
    if w:
        return [viol(f"{prop}/stale-skip-of-the-previous-iteration-applied-after-the-jump", f"{w}; symptoms: {[v['sig'] for v in violations][:4]}")]
    w = stale_message_after_rearm_witness(run)
    if w:
        return [viol(f"{prop}/stale-message-of-the-previous-arming-handled-after-the-re-arm", f"{w}; symptoms: {[v['sig'] for v in violations][:4]}")]
    return violations


def recovery_started_parent_before_children(run: Any) -> str | None:
    """Mechanism classifier: a recovery sweep pushed StartTask for a stage whose
    synthetic BEFORE stages had not finished (recovery.py looks only at the parent's
    own tasks and start_time)."""
    groups = Groups(run.commits)
    tl = Timeline(run.audit)
    id2ref = {v["id"]: k for k, v in run.state.get("stages", {}).items()}
    children: dict[str, list[str]] = {}
    for ref, v in run.state.get("stages", {}).items():
        if "<before" in ref:
            parent_ref = ref.split("<", 1)[0]
            pid = run.state["stages"].get(parent_ref, {}).get("id")
            if pid:
                children.setdefault(pid, []).append(v["id"])
    since = getattr(run, "since", 0)
    for a in run.audit:
        if a["seq"] > since and a["kind"] == "queue" and a["op"] == "ins" and a["c"] == "StartTask":
            g = groups.of(a["seq"])
            tag = groups.tag(g)
            if not tag or tag[0] != "Recovery":
                continue
            try:
                sid = json.loads(a["d"]).get("stage_id")
            except Exception:
                continue
            for cid in children.get(sid, []):
                st = tl.at(cid, a["seq"])
                if st not in CONTINUABLE:
                    return f"recovery pushed StartTask for {id2ref.get(sid, sid)} while its before-stage {id2ref.get(cid, cid)} was {st}"
    return None


def sweep_overlapped_planning(run: Any) -> str | None:
    """Mechanism classifier (interleaved sweep x handler runs only): the recovery sweep thread
    pushed StartTask for a stage that a StartStage handler claimed WHILE the sweep was running
    (claim commit after the start of the race, before the sweep's push).  The sweep's multi-statement
    read of the workflow overlapped the handler's claim / before-stage / plan commits, saw a RUNNING
    stage with unstarted tasks and no before-stage, and took it for a crashed one."""
    race = getattr(run, "race_start_seq", None)
    if race is None:
        return None
    groups = Groups(run.commits)
    claims: dict[str, tuple[int, Any]] = {}
    for a in run.audit:
        if a["seq"] <= race:
            continue
        tag = groups.tag(groups.of(a["seq"]))
        if a["kind"] == "status" and a["op"] == "stage" and a["c"] == "NOT_STARTED" and a["d"] == "RUNNING" and tag and tag[0] == "StartStage":
            claims[a["a"]] = (a["seq"], tag)
    id2ref = {v["id"]: k for k, v in run.state.get("stages", {}).items()}
    for a in run.audit:
        if a["seq"] > race and a["kind"] == "queue" and a["op"] == "ins" and a["c"] == "StartTask":
            g = groups.of(a["seq"])
            tag = groups.tag(g)
            if not tag or tag[0] != "Recovery" or groups.thread(g) in (None, "MainThread"):
                continue
            try:
                sid = json.loads(a["d"]).get("stage_id")
            except Exception:
                continue
            c = claims.get(sid)
            if c and c[0] < a["seq"]:
                return f"sweep thread pushed StartTask for {id2ref.get(sid, sid)} at seq {a['seq']}; StartStage row {c[1][1]} claimed that stage at seq {c[0]}, while the sweep was already running (race began at seq {race})"
    return None


def double_plan_witness(run: Any) -> str | None:
    """Mechanism classifier: ONE StartStage message was planned by two workers - its lock lapsed while the
    first worker was between its claim and its plan commit, the second worker took the RUNNING stage without
    tasks or synthetic children for a zombie and re-planned it; both inserted the stage's synthetic children,
    the loser's copies stay NOT_STARTED for ever."""
    groups = Groups(run.commits)
    since = getattr(run, "since", 0)
    by_msg: dict[Any, set] = {}
    for a in run.audit:
        if a["seq"] <= since or a["kind"] != "status" or a["op"] != "stage_ins":
            continue
        g = groups.of(a["seq"])
        tag = groups.tag(g)
        if tag and tag[0] == "StartStage":
            by_msg.setdefault(tag[1], set()).add(groups.thread(g))
    for mid, threads in by_msg.items():
        if len(threads) >= 2:
            return f"StartStage row {mid} inserted synthetic stages from {len(threads)} worker threads {sorted(map(str, threads))}: the stage was planned twice (zombie re-plan while the first claimer was still planning)"
    return None


def lost_plan_witness(run: Any) -> str | None:
    """Mechanism classifier: a StartStage handler claimed a stage (NOT_STARTED->RUNNING
    committed) but its plan commit never happened although the message was marked
    processed: the plan's store_stage lost the optimistic lock to a concurrent writer of
    the same stage row and StartStageHandler swallowed the ConcurrencyError."""
    groups = Groups(run.commits)
    since = getattr(run, "since", 0)
    by_group: dict[int, list[dict]] = {}
    for a in run.audit:
        if a["seq"] > since:
            by_group.setdefault(groups.of(a["seq"]), []).append(a)
    id2ref = {v["id"]: k for k, v in run.state.get("stages", {}).items()}
    for g, rows in by_group.items():
        tag = groups.tag(g)
        if not tag or tag[0] != "StartStage":
            continue
        claim = [a for a in rows if a["kind"] == "status" and a["op"] == "stage" and a["c"] == "NOT_STARTED" and a["d"] == "RUNNING"]
        if not claim or any(a["kind"] == "mark" for a in rows):
            continue
        # find the commit that carries this message's processed mark
        for g2, rows2 in by_group.items():
            if g2 <= g or groups.tag(g2) != tag:
                continue
            if any(a["kind"] == "mark" and a["a"] == tag[1] for a in rows2):
                pushed = [a for a in rows2 if a["kind"] == "queue" and a["op"] == "ins"]
                sid = claim[0]["a"]
                mark_seq = min(a["seq"] for a in rows2)
                # a stage that somebody else moved on (canceled, re-armed) between the claim and the end of the
                # handler legitimately gets no plan: only a stage still RUNNING at that point lost its plan
                later = [a for a in run.audit if a["kind"] == "status" and a["op"] == "stage" and a["a"] == sid and claim[0]["seq"] < a["seq"] < mark_seq]
                if later and later[-1]["d"] != "RUNNING":
                    break
                if not pushed:
                    between = [a for a in run.audit if claim[0]["seq"] < a["seq"] and groups.of(a["seq"]) < g2 and groups.tag(groups.of(a["seq"])) != tag and a["kind"] in ("status", "mark")]
                    who = sorted({str(groups.tag(groups.of(a["seq"]))) for a in between})
                    return f"StartStage row {tag[1]} claimed {id2ref.get(sid, sid)} at seq {claim[0]['seq']} but committed no plan (its mark commit pushed nothing); commits in between by {who[:4]}"
                break
    return None

"""C13 - events and the state they describe commit together."""

from __future__ import annotations

import json
import random
from collections import Counter

from .. import hooks, oracles, specs
from ..framework import viol
from ..runs import delivery_run
from . import c01

ID = "C13"
LEVEL = "fault_enumeration"
RULE = (
    "case = workflow (confluent family + failing / cancel / random DAGs) run with the event store in the same database "
    "file, (i) crash-free under FIFO / shuffled delivery and (ii) with a failure injected at the n-th statement that "
    "follows an event INSERT inside a store transaction (RuntimeError = crash/rollback, ConcurrencyError = optimistic "
    "lock conflict) or at that event INSERT itself (store error on the append), n enumerated over every such position of the run. Because one commit group of the trigger audit "
    "log is exactly what becomes durable together, 'event durable iff state change durable at every crash point' is "
    "decided by co-membership: every TASK_/STAGE_ COMPLETED/FAILED event shares its commit group with the status row of "
    "that entity, and every completion row committed by CompleteTask / CompleteStage shares it with its event. A SYNC "
    "bus subscriber checks, through an independent connection, that each notified event is already durable; sequences "
    "unique and increasing; (iii) the same crash-free monitors over runs by 2-4 worker threads interleaved at "
    "SQL-statement granularity. Non-trivial = commit group containing a completion event; distinct = (event type, status "
    "written, handler, injected-failure class)."
)
ASSUMPTIONS = ["SQLite backend, event store in the same database file (the only deployment where one commit can cover both)", "events other than task / stage completion (started, skipped, canceled, workflow level) are not part of the claim"]
MIN_OBS = {"completion_groups_checked": {"quick": 2000, "thorough": 30000}, "injected_failures": {"quick": 200, "thorough": 3000}, "bus_notifications": {"quick": 3000, "thorough": 40000}, "interleaved_runs": {"quick": 50, "thorough": 700}}
TIMEOUT = {"quick": 800, "thorough": 3400}

COMPLETION_EVENTS = {"task.completed": "task", "task.failed": "task", "stage.completed": "stage", "stage.failed": "stage"}


def gen_cases(tier: str, seed: int) -> list[dict]:
    n = 20 if tier == "quick" else 150
    cases = []
    for i in range(n):
        cases.append({"spec_i": i, "seed": seed, "mode": "plain"})
        cases.append({"spec_i": i, "seed": seed, "mode": "failpoints"})
    for i in range(60 if tier == "quick" else 800):
        cases.append({"spec_i": i, "seed": seed, "mode": "race"})
    return cases


def _spec_for(i: int, seed: int) -> dict:
    if i % 4 == 3:
        rng = random.Random(seed * 5 + i)
        sp = specs.random_dag(rng, max_stages=6)
        sp["name"] = f"rand{seed}_{i}"
        return sp
    if i % 4 == 2:
        rng = random.Random(seed * 5 + i)
        return rng.choice([specs.racing_failure(), specs.synthetic_variant(rng), specs.first_of_failing(rng), specs.terminal_mid()])
    return c01._spec_for(i // 2, seed)


def atomicity_oracle(run, injected: str = "", exempt_msg=None) -> tuple[list[dict], Counter, set]:
    out = []
    obs: Counter = Counter()
    keys: set = set()
    groups = oracles.Groups(run.commits)
    by_group: dict[int, list[dict]] = {}
    tl_cache: dict = {}
    for a in run.audit:
        by_group.setdefault(groups.of(a["seq"]), []).append(a)
    for g, rows in by_group.items():
        events = [a for a in rows if a["kind"] == "event"]
        status = [a for a in rows if a["kind"] == "status" and a["op"] in ("task", "stage")]
        tag = groups.tag(g)
        handler = tag[0] if tag else None
        for e in events:
            kind = COMPLETION_EVENTS.get(e["b"])
            if not kind:
                continue
            obs["completion_groups_checked"] += 1
            match = [s for s in status if s["a"] == e["d"] and s["op"] == kind and s["d"] in oracles.COMPLETE | {"REDIRECT"}]
            try:
                est = json.loads(e["f"] or "{}").get("status")
            except Exception:
                est = None
            keys.add(f"{e['b']}:{est}:{handler}:{injected}")
            if not match:
                # no status row in this commit: the completion may have been committed EARLIER (a second handler
                # reporting the same, already durable outcome - redundant, but "a completion event for a stage
                # whose completion was not committed" it is not).  Phantom = the entity is not durably complete
                # (with that outcome) once this commit is done.
                tl = tl_cache.setdefault("tl", oracles.Timeline(run.audit))
                now = tl.at(e["d"], groups.maxes[g]) if 0 <= g < len(groups.maxes) else None
                if now in oracles.COMPLETE | {"REDIRECT"} and (not est or est == now):
                    obs["redundant_completion_events"] += 1
                    continue
                out.append(viol(f"C13/phantom-event:{e['b']}", f"event {e['b']} (seq {e['a']}) for {kind} {e['d']} committed by {handler} without a completion status row of that {kind} in the same commit"))
            elif est and match[0]["d"] != est:
                out.append(viol(f"C13/event-status-mismatch:{e['b']}", f"event says {est}, row written {match[0]['d']}"))
        if handler in ("CompleteTask", "CompleteStage"):
            if exempt_msg is not None and tag == exempt_msg and all(s_["d"] == "TERMINAL" for s_ in status if s_["op"] in ("task", "stage") and s_["c"] == "RUNNING"):
                # the handler's documented catch-all error path (after our injected non-transient
                # exception) marks the stage TERMINAL without an event: not "the regular step".
                # Only TERMINAL writes qualify: a completion with any other outcome committed by the
                # invocation in which the failpoint fired is the regular step and needs its event.
                obs["error_path_commits_exempted"] += 1
                continue
            for s in status:
                want_kind = "task" if handler == "CompleteTask" else "stage"
                if s["op"] != want_kind or s["d"] not in oracles.COMPLETE | {"REDIRECT"} or s["c"] not in ("RUNNING",):
                    continue
                if want_kind == "task" and s["d"] == "SKIPPED":
                    continue
                if want_kind == "stage":
                    # only the stage the message targets (a parent may be written in another commit)
                    types = {"stage.completed", "stage.failed", "stage.skipped"}
                else:
                    types = {"task.completed", "task.failed"}
                obs["completion_rows_checked"] += 1
                if not any(e["b"] in types and e["d"] == s["a"] for e in events):
                    out.append(viol(f"C13/completion-without-event:{want_kind}:{s['d']}", f"{handler} committed {want_kind} {s['f']} RUNNING->{s['d']} without its event in the same commit"))
    # sequences
    seqs = [int(a["a"]) for a in run.audit if a["kind"] == "event"]
    if len(seqs) != len(set(seqs)) or seqs != sorted(seqs):
        out.append(viol("C13/sequence-not-unique-increasing", f"{seqs[:20]}"))
    # bus
    durable_ids = set()
    last = {}
    seen_ids = set()
    ev_seq = set(seqs)
    for b in run.bus_log:
        obs["bus_notifications"] += 1
        if not b["visible"]:
            out.append(viol(f"C13/notified-before-commit:{b['type']}", f"subscriber got {b['type']} seq {b['sequence']} that an independent connection could not see (in_txn={b['in_txn']})"))
        if b["sequence"] not in ev_seq:
            out.append(viol(f"C13/notified-of-rolled-back-event:{b['type']}", f"subscriber got {b['type']} seq {b['sequence']} which is not in the durable log"))
        if b["event_id"] in seen_ids:
            out.append(viol("C13/duplicate-notification", f"{b['type']} seq {b['sequence']}"))
        seen_ids.add(b["event_id"])
        if last.get(b["thread"], -1) >= b["sequence"]:
            out.append(viol("C13/notification-order", f"thread {b['thread']}: {last[b['thread']]} then {b['sequence']}"))
        last[b["thread"]] = b["sequence"]
    return out, obs, keys


class _Failpoint:
    """Raise at the n-th statement that follows an `INSERT INTO events` inside a transaction."""

    def __init__(self, n: int, exc: str) -> None:
        self.n = n
        self.exc = exc
        self.count = 0
        self.armed = False
        self.fired = False
        self.fired_in = None

    def __call__(self, conn, sql, args) -> None:
        if self.fired:
            return
        if self.armed:
            self.armed = False
            if self.count == self.n:
                self.fired = True
                import threading

                from .. import vtask

                w = vtask._current
                self.fired_in = w.current.get(threading.current_thread().name) if w is not None else None
                if self.exc == "concurrency":
                    from stabilize.errors import ConcurrencyError

                    raise ConcurrencyError("injected optimistic-lock conflict")
                if self.exc == "transient":
                    raise ConnectionError("injected transient failure after event append")
                raise RuntimeError("injected failure after event append")
            self.count += 1
        if isinstance(sql, str) and "INSERT INTO events" in sql and conn.in_transaction:
            if self.exc == "at_insert":
                # the event append itself fails (store error on that very statement)
                if self.count == self.n:
                    self.fired = True
                    import sqlite3
                    import threading

                    from .. import vtask

                    w = vtask._current
                    self.fired_in = w.current.get(threading.current_thread().name) if w is not None else None
                    raise sqlite3.OperationalError("database is locked")
                self.count += 1
                return
            self.armed = True


def _race(case: dict) -> dict:
    """Crash-free runs by 2-4 worker threads interleaved at SQL-statement granularity with event
    sourcing on: co-membership of completion events and status rows per commit group, sequence numbers
    unique and increasing in commit order, subscribers (called on whichever worker thread committed)
    only see durable events."""
    from .. import interleave as il

    spec = _spec_for(case["spec_i"], case["seed"])
    rng = random.Random(case["seed"] * 4447 + case["spec_i"])
    run, info = il.race_run(spec, rng, events=True)
    obs: Counter = Counter({"evaluations": 1})
    if run is None:
        obs["scheduler_failed"] += 1
        return {"violations": [], "obs": dict(obs), "keys": [], "inconclusive": info.get("failed")}
    obs["interleaved_runs"] += 1
    v, o, k = atomicity_oracle(run, injected="race")
    obs.update(o)
    seen = set()
    uniq = []
    for x in v:
        if x["sig"] not in seen:
            seen.add(x["sig"])
            x.update(spec=spec["name"], interleaved=True, trace_hash=info["trace_hash"])
            uniq.append(x)
    return {"violations": uniq, "obs": dict(obs), "keys": sorted(k)}


def run_case(case: dict) -> dict:
    if case.get("mode") == "race":
        return _race(case)
    spec = _spec_for(case["spec_i"], case["seed"])
    rng = random.Random(case["seed"] * 19 + case["spec_i"])
    obs: Counter = Counter()
    keys: set = set()
    violations = []
    sample = None
    if case["mode"] == "plain":
        for j in range(4):
            inj = [{"at": rng.randrange(2, 20), "do": "cancel"}] if j == 3 else None
            run = delivery_run(spec, seed=rng.randrange(1 << 30), order="fifo" if j == 0 else "random", noack_p=0.0 if j == 0 else 0.2, events="echo" if j % 2 else True, injections=inj, max_steps=1200)
            if j % 2:
                obs["runs_with_recording_subscriber"] += 1
            obs["evaluations"] += 1
            v, o, k = atomicity_oracle(run)
            obs.update(o)
            keys |= k
            violations += v
            if sample is None:
                g = oracles.Groups(run.commits)
                ev = [a for a in run.audit if a["kind"] == "event" and a["b"] == "stage.completed"][:1]
                if ev:
                    gi = g.of(ev[0]["seq"])
                    sample = {"spec": spec["name"], "commit_group": [(a["kind"], a["op"], a["b"] if a["kind"] == "event" else a["c"], a["d"]) for a in run.audit if g.of(a["seq"]) == gi and a["kind"] in ("event", "status", "mark", "queue")], "committed_by": str(g.tag(gi))}
    else:
        base = delivery_run(spec, events=True)
        positions = sum(1 for a in base.audit if a["kind"] == "event")  # every event appended inside a store transaction
        for n in range(positions):
            for exc in ("runtime", "concurrency", "transient", "at_insert"):
                fp = _Failpoint(n, exc)
                hooks.H.stmt_hook = fp
                try:
                    run = delivery_run(spec, events=True, max_steps=base.steps * 3 + 60)
                finally:
                    hooks.H.stmt_hook = None
                obs["evaluations"] += 1
                if fp.fired:
                    obs["injected_failures"] += 1
                v, o, k = atomicity_oracle(run, injected=exc if fp.fired else "", exempt_msg=tuple(fp.fired_in) if (fp.fired_in and exc in ("runtime", "at_insert")) else None)
                obs.update(o)
                keys |= k
                for x in v:
                    x.update(failpoint=n, exc=exc)
                violations += v
                # the workflow still completes after the injected failure (retry path), same outcome
                if run.quiescent and base.quiescent and fp.fired:
                    if run.state["wf"] != base.state["wf"]:
                        obs["outcome_changed_by_injected_failure"] += 1
    seen = set()
    uniq = []
    for x in violations:
        if x["sig"] not in seen:
            seen.add(x["sig"])
            x["spec"] = spec["name"]
            uniq.append(x)
    return {"violations": uniq, "obs": dict(obs), "keys": sorted(keys), "sample": sample}

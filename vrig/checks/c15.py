"""C15 - jump loops are bounded and always terminate."""

from __future__ import annotations

import json
import random
from collections import Counter

from .. import oracles, specs
from ..framework import viol
from ..runs import delivery_run

ID = "C15"
LEVEL = "exploration"
RULE = (
    "case = loop shape (self loop, 2-4 stage cycle, loop with side branch and fan-in - the side branch outside or inside the "
    "loop body -, forward jump over a diamond, forward jump followed by backward jumps that re-arm the bypassed stage) x "
    "requested iterations 0..limit+3 x _max_jumps in {absent,0,1,2,3,10,12} at workflow or stage level x (FIFO / shuffled "
    "delivery with withheld acks / one message held back / shuffled delivery with healthy recovery sweeps at random moments / 2-4 worker threads interleaved at SQL-statement granularity). Oracles: effective jumps <= limit; limit reached => source "
    "TERMINAL and workflow final; per-iteration ledger counts of every stage of the independently computed re-arm set "
    "== 1, stages outside it never re-run; forward jump: bypassed stages SKIPPED and never executed. Non-trivial = >=1 "
    "jump requested; distinct = (shape, body size, requested, limit, level, order class)."
)
ASSUMPTIONS = ["SQLite backend", "iteration of an execution = number of durable ->NOT_STARTED re-arm rows of its stage before it (audit log)"]
MIN_OBS = {"effective_jumps": {"quick": 500, "thorough": 5000}, "limit_hits": {"quick": 30, "thorough": 300}, "runs_with_recovery_sweeps": {"quick": 100, "thorough": 1000}, "interleaved_runs": {"quick": 100, "thorough": 1000}, "forward_then_backward_runs": {"quick": 5, "thorough": 50}}
TIMEOUT = {"quick": 600, "thorough": 3000}
DEFAULT_LIMIT = 10


def _spec(case: dict) -> dict:
    shape, times, mj, level = case["shape"], case["times"], case["max_jumps"], case["level"]
    if shape == "self":
        sp = specs.self_loop(times)
    elif shape == "side":
        sp = specs.jump_side_branch(times)
    elif shape == "fanin":
        sp = specs.jump_fanin_off_body(times)
    elif shape == "inbody":
        sp = specs.jump_from_sibling(times)
    elif shape == "forward":
        sp = specs.forward_jump()
        sp["stages"][0]["t"][0]["times"] = times
    else:
        sp = specs.jump_loop(times, case.get("body", 3))
    if mj is not None:
        if level == "wf":
            sp["context"] = {"_max_jumps": mj}
        else:
            for s in sp["stages"]:
                s.setdefault("ctx", {})["_max_jumps"] = mj
    if case.get("echo"):
        for s_ in sp["stages"]:
            for b in s_["t"]:
                if b.get("kind") == "jump":
                    b["echo_ctx"] = True
    sp["name"] = f"{shape}{case.get('body', '')}_t{times}_mj{mj}{level}" + ("_echo" if case.get("echo") else "")
    # the order in which stages are listed (= stored, = iterated by the engine) is not
    # promised to be topological
    listing = case.get("listing", "topo")
    if listing == "reversed":
        sp["stages"] = list(reversed(sp["stages"]))
    elif listing == "shuffled":
        random.Random(case["seed"]).shuffle(sp["stages"])
    return sp


def gen_cases(tier: str, seed: int) -> list[dict]:
    rng = random.Random(seed)
    cases = []
    reps = 1 if tier == "quick" else 10
    for _ in range(reps):
        for shape in ("self", "loop", "side", "fanin", "forward", "inbody"):
            for mj in (None, 0, 1, 2, 3, 10, 12):
                limit = DEFAULT_LIMIT if mj is None else mj
                for times in sorted({0, 1, 2, limit - 1, limit, limit + 1, limit + 3, 10**6} - {-1}):
                    if shape == "forward" and times not in (0, 1):
                        continue
                    if times > 13 and times != 10**6:
                        continue
                    for order in ("fifo", "random", "hold", "race", "sweep"):
                        cases.append({"shape": shape, "body": rng.randint(2, 4), "times": times, "max_jumps": mj, "level": rng.choice(["wf", "stage"]), "order": order, "listing": rng.choice(["topo", "reversed", "shuffled"]), "echo": rng.random() < 0.25, "seed": rng.randrange(1 << 30)})
        for mj in (None, 1, 2, 3, 5):
            for order in ("fifo", "random"):
                cases.append({"shape": "alternating", "max_jumps": mj, "order": order, "seed": rng.randrange(1 << 30)})
        for back in (1, 2, 3):
            for order in ("fifo", "random", "race"):
                cases.append({"shape": "fwdback", "times": back, "order": order, "seed": rng.randrange(1 << 30)})
        for shape in ("self", "loop", "side"):
            for times in (1, 2):
                sd = rng.randrange(1 << 30)
                for chunk in range(6):
                    cases.append({"shape": shape, "body": 2, "times": times, "max_jumps": None, "level": "wf", "order": "sweep_enum", "listing": "topo", "seed": sd, "chunk": chunk, "chunks": 6})
    return cases


def rearm_set(spec: dict, target: str) -> set[str]:
    scope = {target}
    changed = True
    while changed:
        changed = False
        for s in spec["stages"]:
            req = s.get("req") or []
            if s["ref"] not in scope and req and all(r in scope for r in req):
                scope.add(s["ref"])
                changed = True
    return scope


def _fwdback(case: dict) -> dict:
    """A forward jump bypasses a stage in the first iteration, a backward jump then re-arms the whole
    chain, later iterations run straight through: the bypassed stage must come back to life.
    a -> s[forward jump to t, once] -> x -> t[jump back to a, `times` times]."""
    back = case["times"]
    spec = {
        "name": f"fwdback{back}",
        "confluent": True,
        "stages": [
            specs.st("a", [], [dict(specs.OK, out=["a_o"])]),
            specs.st("s", ["a"], [{"kind": "jump", "to": "t", "times": 1, "by_iter": True, "out": ["s_o"]}]),
            specs.st("x", ["s"], [dict(specs.OK, out=["x_o"]), dict(specs.OK, out=["x_o2"])]),
            specs.st("t", ["x"], [{"kind": "jump", "to": "a", "times": back, "by_iter": True, "out": ["t_o"]}]),
        ],
    }
    rng = random.Random(case["seed"])
    obs: Counter = Counter({"evaluations": 1, "forward_then_backward_runs": 1})
    if case["order"] == "race":
        from .. import interleave as il

        run, info = il.race_run(spec, rng, max_msgs=900)
        if run is None:
            return {"violations": [], "obs": dict(obs), "keys": [], "inconclusive": info.get("failed")}
        obs["interleaved_runs"] += 1
    else:
        run = delivery_run(spec, seed=case["seed"], order=case["order"], noack_p=0.0 if case["order"] == "fifo" else 0.2, max_steps=900)
    out = []
    counts = oracles.exec_counts(run.ledger)
    tot = {}
    for (ref, ti, _it), n in counts.items():
        tot[(ref, ti)] = tot.get((ref, ti), 0) + n
    # iteration 0: a, s (jumps over x), t (jumps back); iterations 1..back: a, s, x, t
    want = {("a", 0): back + 1, ("s", 0): back + 1, ("x", 0): back, ("x", 1): back, ("t", 0): back + 1}
    st = run.state["stages"]
    if not run.quiescent:
        out.append(viol("C15/did-not-terminate", f"queue not drained after {run.steps} deliveries"))
    elif run.state["wf"] != "SUCCEEDED" or any(v["status"] != "SUCCEEDED" for v in st.values()):
        out.append(viol("C15/loop-did-not-succeed", f"forward jump then {back} backward jump(s): workflow {run.state['wf']}, stages { {k: (v['status'], v['tasks']) for k, v in st.items()} }"))
    if tot != want:
        out.append(viol("C15/per-iteration-count", f"forward jump then {back} backward jump(s): executions {dict((f'{k[0]}.t{k[1]}', v) for k, v in sorted(tot.items()))}, expected {dict((f'{k[0]}.t{k[1]}', v) for k, v in sorted(want.items()))}"))
    out = oracles.attribute(out, run, "C15")
    for v in out:
        v["spec"] = spec["name"]
    return {"violations": out[:6], "obs": dict(obs), "keys": [f"fwdback:{back}:{case['order']}"]}


def _sweep_enum(case: dict) -> dict:
    """A healthy recovery sweep before EVERY step of the loop's reference run (in particular between the commit of
    the task that asked for the jump and the handling of its JumpToStage), each under several shuffled delivery
    orders so that whatever the sweep queued may be delivered late: judged by the ordinary loop oracle."""
    spec = _spec(case)
    ref = delivery_run(spec, max_steps=1500)
    rng = random.Random(case["seed"])
    obs: Counter = Counter()
    keys: list = []
    violations: list = []
    for at in range(1, ref.steps + 1):
        if at % case.get("chunks", 1) != case.get("chunk", 0):
            continue
        for rep_ in range(12):
            # repetitions 0-2: shuffled order; 3-11: in-order delivery with the rep-th RunTask held back 8 / 16 steps
            sub = dict(case, order="sweep_at", _at=at, seed=rng.randrange(1 << 30), _hold=None if rep_ < 3 else {"type": "RunTask", "nth": (rep_ - 3) % 6 + (at // 8), "steps": 8 if rep_ % 2 else 16})
            r = run_case(sub)
            for k, v in r["obs"].items():
                obs[k] += v
            keys += r["keys"]
            for x in r["violations"]:
                x.update(sweep_before_step=at)
            violations += r["violations"]
    seen = set()
    uniq = []
    for x in violations:
        if x["sig"] not in seen:
            seen.add(x["sig"])
            uniq.append(x)
    return {"violations": uniq[:8], "obs": dict(obs), "keys": sorted(set(keys))[:50]}


def _alternating(case: dict) -> dict:
    """head -> review -> verify where TWO stages take turns sending the loop back to its head, for ever (review on
    its even rounds, verify whenever it is reached): each jump re-arms the other jumper; the per-stage jump limit
    must still end the loop - TERMINAL after a bounded number of jumps - whatever the delivery order."""
    mj = case["max_jumps"]
    limit = DEFAULT_LIMIT if mj is None else mj
    spec = {
        "name": f"alternating_mj{mj}",
        "confluent": False,
        "stages": [
            specs.st("a", [], [dict(specs.OK, out=["a_o"])]),
            specs.st("b", ["a"], [{"kind": "jump", "to": "a", "every": 2, "phase": 0, "out": ["b_o"]}]),
            specs.st("c", ["b"], [{"kind": "jump", "to": "a", "every": 1, "phase": 0, "out": ["c_o"]}]),
            specs.st("z", ["c"]),
        ],
    }
    if mj is not None:
        spec["context"] = {"_max_jumps": mj}
    obs: Counter = Counter({"evaluations": 1, "alternating_jumper_runs": 1})
    budget = (2 * limit + 6) * 16 + 60
    run = delivery_run(spec, seed=case["seed"], order=case["order"], noack_p=0.15 if case["order"] == "random" else 0.0, max_steps=budget)
    groups = oracles.Groups(run.commits)
    jumps = len({groups.of(a["seq"]) for a in run.audit if a["kind"] == "mark" and a["op"] == "ins" and a["b"] == "JumpToStage"})
    out = []
    if not run.quiescent:
        out.append(viol("C15/did-not-terminate:two-alternating-jumpers", f"queue not drained after {run.steps} deliveries, {jumps} jumps applied (limit {limit} per stage)"))
    else:
        if jumps > 2 * limit + 1:
            out.append(viol("C15/more-jumps-than-limit:two-alternating-jumpers", f"{jumps} jumps took effect with a limit of {limit} per jumping stage"))
        if run.state["wf"] != "TERMINAL":
            out.append(viol("C15/limit-reached-not-terminal:two-alternating-jumpers", f"the loop never ends by itself; workflow {run.state['wf']} after {jumps} jumps, stages { {k: v['status'] for k, v in run.state['stages'].items()} }"))
    return {"violations": out, "obs": dict(obs), "keys": [f"alternating:{mj}:{case['order']}:{jumps}"]}


def run_case(case: dict) -> dict:
    if case.get("shape") == "alternating":
        return _alternating(case)
    if case.get("shape") == "fwdback":
        return _fwdback(case)
    if case.get("order") == "sweep_enum":
        return _sweep_enum(case)
    spec = _spec(case)
    rng = random.Random(case["seed"])
    hold = None
    order = case["order"]
    if order == "hold":
        hold = {"type": rng.choice(["CompleteTask", "CompleteStage", "StartStage", "JumpToStage", "RunTask"]), "nth": rng.randrange(0, 4), "steps": rng.choice([4, 12, 30])}
        order = "random"
    obs: Counter = Counter({"evaluations": 1})
    if order == "race":
        # the same loop run by 2-4 worker threads interleaved at SQL-statement granularity
        from .. import interleave as il

        run, info = il.race_run(spec, rng, max_msgs=1500)
        if run is None:
            obs["scheduler_failed"] += 1
            return {"violations": [], "obs": dict(obs), "keys": [], "inconclusive": info.get("failed")}
        obs["interleaved_runs"] += 1
    elif order == "sweep_at":
        run = delivery_run(spec, seed=case["seed"], order="fifo" if case.get("_hold") else "random", noack_p=0.0, hold=case.get("_hold"), injections=[{"at": case["_at"], "do": "recovery", "times": 1}], max_steps=1800)
        obs["runs_with_recovery_sweeps"] += 1
    elif order == "sweep":
        # healthy recovery sweeps at random moments (also right after a task asked for a jump, while its
        # JumpToStage is still queued) under shuffled delivery: a sweep must not add executions to any iteration
        inj = [{"at": rng.randrange(1, 60), "do": "recovery", "times": 1} for _ in range(rng.randint(2, 8))]
        run = delivery_run(spec, seed=case["seed"], order="random", noack_p=0.1, injections=inj, max_steps=1800)
        obs["runs_with_recovery_sweeps"] += 1
    else:
        run = delivery_run(spec, seed=case["seed"], order=order, noack_p=0.0 if case["order"] == "fifo" else 0.2, hold=hold, max_steps=1500)
    out = []
    limit = DEFAULT_LIMIT if case["max_jumps"] is None else case["max_jumps"]
    times = case["times"]
    if not run.quiescent:
        return {"violations": [viol("C15/did-not-terminate", f"queue not drained after {run.steps} deliveries (requested {times}, limit {limit})")], "obs": dict(obs), "keys": []}
    src = next(s for s in spec["stages"] if any(b.get("kind") == "jump" for b in s["t"]))
    jb = next(b for b in src["t"] if b.get("kind") == "jump")
    target = jb["to"]
    ids = oracles.stage_ids(run.audit)
    by_id = {v: k for k, v in ids.items()}
    groups = oracles.Groups(run.commits)
    tl = oracles.Timeline(run.audit)
    # effective jumps: commit groups of a JumpToStage handling (recognised by the handler tag
    # of the commit or by the processed mark it carries - whichever the code uses) that
    # re-armed / started the target
    jump_set = set()
    for a in run.audit:
        if a["kind"] == "mark" and a["op"] == "ins" and a["b"] == "JumpToStage":
            jump_set.add(groups.of(a["seq"]))
    for g in range(len(groups.commits)):
        t = groups.tag(g)
        if t and t[0] == "JumpToStage":
            jump_set.add(g)
    jump_groups = sorted(jump_set)
    rows_by_group: dict[int, list] = {}
    for a in run.audit:
        if a["kind"] == "status" and a["op"] == "stage":
            rows_by_group.setdefault(groups.of(a["seq"]), []).append(a)
    forward = case["shape"] == "forward"
    effective = 0
    last_jump_seq = 0
    allowed = rearm_set(spec, target) | {src["ref"], target}
    for g in jump_groups:
        rows = rows_by_group.get(g, [])
        rearmed = {by_id.get(r["a"], r["a"]) for r in rows if r["d"] == "NOT_STARTED"}
        started_target = any(a["kind"] == "queue" and a["op"] == "ins" and a["c"] == "StartStage" and groups.of(a["seq"]) == g for a in run.audit)
        terminal = any(r["d"] == "TERMINAL" for r in rows)
        if started_target and not terminal:
            effective += 1
            last_jump_seq = max([last_jump_seq] + [r["seq"] for r in rows])
            if not forward:
                extra = {r for r in rearmed if r in ids and r not in allowed}
                if extra:
                    out.append(viol("C15/rearmed-outside-scope", f"jump to {target} re-armed {sorted(extra)}; allowed {sorted(allowed)}"))
                first_seq = min(r["seq"] for r in rows) if rows else 0
                for s in allowed:
                    if s in ids and s not in rearmed and tl.at(ids[s], first_seq - 1) not in ("NOT_STARTED", None):
                        out.append(viol("C15/not-rearmed", f"jump to {target} left {s} in {tl.at(ids[s], first_seq - 1)}"))
    obs["effective_jumps"] += effective
    if effective > limit:
        out.append(viol("C15/more-jumps-than-limit", f"{effective} jumps took effect, limit {limit}"))
    wf = run.state["wf"]
    stages = run.state["stages"]
    want_jumps = min(times, limit)
    if effective != want_jumps:
        out.append(viol("C15/jump-count-wrong", f"{effective} effective jumps, expected {want_jumps} (requested {times}, limit {limit})"))
    if times > limit:
        obs["limit_hits"] += 1
        if stages[src["ref"]]["status"] != "TERMINAL" or wf != "TERMINAL":
            out.append(viol("C15/limit-reached-not-terminal", f"limit {limit} reached: source {stages[src['ref']]['status']}, workflow {wf}"))
    else:
        if wf != "SUCCEEDED":
            out.append(viol("C15/loop-did-not-succeed", f"requested {times} <= limit {limit}: workflow {wf}, stages { {k: v['status'] for k, v in stages.items()} }"))
    # per-iteration execution counts
    counts = oracles.exec_counts(run.ledger)
    iters = effective + 1
    body = rearm_set(spec, target) if not forward else set()
    for s in spec["stages"]:
        ref = s["ref"]
        for ti, b in enumerate(s["t"]):
            per = {it: counts.get((ref, ti, it), 0) for it in range(iters + 1)}
            if forward:
                bypass = {"b", "c", "d"} if effective else set()
                want = {0: 0 if ref in bypass else 1}
                if times > limit and ref != src["ref"]:
                    want = {0: 0}
                if ref in bypass and stages[ref]["status"] != "SKIPPED":
                    out.append(viol("C15/bypassed-not-skipped", f"{ref} is {stages[ref]['status']}"))
            elif ref in body and ref in specs.ancestors(spec, src["ref"]) | {src["ref"]}:
                # stages of the loop body proper: once per iteration (tasks after a failing/jumping task excluded)
                want = {it: 1 for it in range(iters)}
                if ref == src["ref"]:
                    ji = next(i for i, bb in enumerate(s["t"]) if bb.get("kind") == "jump")
                    if ti > ji:
                        want = {it: 0 for it in range(iters)}
                        if times <= limit:
                            want[iters - 1] = 1
            elif ref in body and case["shape"] == "inbody":
                # a parallel branch INSIDE the loop body (re-armed by every jump, possibly while it runs): at most
                # once per iteration, and once in the last iteration if the loop ended well
                if any(v > 1 for v in per.values()):
                    out.append(viol("C15/per-iteration-count", f"{ref}.t{ti}: executions per iteration {per} (parallel branch inside the loop body)"))
                # (its iteration label only advances when the jump found it started, so "ran in the last
                # iteration" is decided by time: an execution that began after the last effective jump commit)
                if times <= limit and not any(r["ref"] == ref and r["task"] == ti and r["seq"] >= last_jump_seq for r in run.ledger):
                    out.append(viol("C15/parallel-branch-missing-in-last-iteration", f"{ref}.t{ti}: executions per iteration {per}, none after the last jump (seq {last_jump_seq}), {effective} jumps"))
                continue
            elif ref in body:
                # after the loop (depends only on the body): runs once, after the last iteration, if the loop ended well
                total = sum(per.values())
                if total != (1 if times <= limit else 0):
                    out.append(viol("C15/post-loop-stage-count", f"{ref}.t{ti} executed {total} times (requested {times}, limit {limit})"))
                continue
            else:
                total = sum(per.values())
                # outside the re-arm set: exactly one execution overall (0 if downstream of a terminal source)
                blocked = times > limit and src["ref"] in specs.ancestors(spec, ref)
                # when the limit ends the workflow, a sibling branch still running may be canceled (0 or 1)
                ok_totals = {0} if blocked else ({0, 1} if times > limit else {1})
                if total not in ok_totals:
                    out.append(viol("C15/stage-outside-loop-rerun", f"{ref}.t{ti} executed {total} times, expected {sorted(ok_totals)}"))
                continue
            got = {it: per.get(it, 0) for it in want}
            if got != want or any(v for it, v in per.items() if it not in want):
                out.append(viol("C15/per-iteration-count", f"{ref}.t{ti}: executions per iteration {per}, expected {want} ({effective} jumps)"))
    keys = []
    if times > 0:
        keys.append(f"{case['shape']}:{case.get('body')}:{min(times, 99)}:{case['max_jumps']}:{case['level']}:{case['order']}:{case.get('listing')}")
    sample = None
    if times == 2 and case["shape"] == "side":
        sample = {"case": case, "effective_jumps": effective, "executions": {f"{k[0]}.t{k[1]}@{k[2]}": v for k, v in sorted(counts.items())}, "final": {k: v["status"] for k, v in stages.items()}}
    out = oracles.attribute(out, run, "C15")
    for v in out:
        v["spec"] = spec["name"]
    return {"violations": out[:8], "obs": dict(obs), "keys": keys, "sample": sample}

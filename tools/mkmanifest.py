#!/venv/bin/python
"""Regenerate MANIFEST.json from the check modules that exist."""
import json
import os
import sys

HERE = os.path.dirname(os.path.dirname(os.path.abspath(__file__)))
sys.path.insert(0, HERE)

META = {
    "C01": ("crash", "commit-snapshot crash enumeration + recovery resume; reference-run equality oracle over audit log and execution ledger", "3/C01"),
    "C02": ("delivery", "controlled delivery schedules (reorder / withheld ack / hold-back, exhaustive depth-bounded branching) vs FIFO reference; every message handed to a second worker during its first handling; audit-trigger and ledger monitors", "3/C02"),
    "C03": ("delivery", "join-predicate monitor evaluated on the trigger audit timeline at every durable stage start under hostile StartStage injection", "3/C03"),
    "C04": ("interleaving", "cooperative statement-level scheduler (preemption-bounded exhaustive + random) with exactly-once monitors on audit log and ledger", "3/C04"),
    "C05": ("delivery", "quiescence predicates on store.retrieve() after draining hostile delivery schedules over the full workflow family, 3-worker interleavings, and a lock error at every handler COMMIT / first write in turn", "3/C05"),
    "C06": ("all", "transition-table monitor over every durable status row (SQL triggers) of delivery, crash and interleaving workloads", "3/C06"),
    "C07": ("interleaving", "statement-level interleaving of read-modify-write operations; lost-update / version monitors on recorded histories; serializability of every pair of co-enabled messages against the two sequential orders", "3/C07"),
    "C08": ("inputs", "reference queue model stepped beside random operation sequences; conservation ledger from triggers; interleaved pollers; commit snapshots", "3/C08"),
    "C09": ("delivery", "handler-invocation monitor joined with durable processed marks under redelivery after restart / rotation / stalled workers / failing lookups, worker threads sharing the filter; bloom shadow-set contract", "3/C09"),
    "C10": ("delivery", "recovery sweeps injected at every step (and at crash snapshots twice) compared with sweep-free runs", "3/C10"),
    "C11": ("interleaving", "mutex / deferred-choice monitors per commit group under statement-level interleaving and retention sweeps", "3/C11"),
    "C12": ("delivery", "replay-vs-store comparison, metamorphic prefix and snapshot oracles over every event-log cut", "3/C12"),
    "C13": ("crash", "commit-group matching of events vs status rows, failpoints inside completion transactions, bus subscriber monitor", "3/C13"),
    "C14": ("delivery", "execution ledger counts and per-attempt context monitor for transient-retry and polling tasks", "3/C14"),
    "C15": ("delivery", "independent re-arm / skip set reference vs per-iteration ledger counts; jump budget monitor", "3/C15"),
    "C16": ("delivery", "reference visibility model over uniquely tagged outputs vs contexts recorded at Task.execute", "3/C16"),
    "C17": ("delivery", "cancel injected at every step and from a racing thread; ledger entries vs the commit that set is_canceled; sticky-flag and final-state monitors; CancelWorkflow x next-handler pairs", "3/C17"),
    "C18": ("delivery", "signal injected at every step / interleaved with the suspending task, the planning StartStage, a jump, or a second handler of the same message; exactly-once payload monitor", "3/C18"),
    "C19": ("inputs", "hypothesis-generated workflows and messages round-tripped through the real store / queue; field-by-field comparison", "3/C19"),
    "C20": ("inputs", "reference validator + audit-hook sandbox monitor + exception-type monitor over generated graphs and expressions", "3/C20"),
}

TEXT = {
    "exploration": "held on the executions this run produced (counts in the evidence file); exploration, not proof",
    "fault_enumeration": "every commit point of every generated run is crashed and resumed (enumerated, inside the stated workflow family); counts in the evidence file",
}


def main() -> None:
    from vrig import env

    env.setup()
    import importlib

    checks = []
    na = []
    for cid, (engine, technique, ref) in META.items():
        path = os.path.join(HERE, "vrig", "checks", cid.lower() + ".py")
        if not os.path.exists(path):
            na.append({"property_id": cid, "reason": "check not built yet in this round (designed in DESIGN.md section " + ref + "); runtime monitoring applies"})
            continue
        mod = importlib.import_module(f"vrig.checks.{cid.lower()}")
        checks.append(
            {
                "property_id": cid,
                "quick_cmd": f"./vcheck {cid} --tier quick",
                "thorough_cmd": f"./vcheck {cid} --tier thorough",
                "evidence_file": f"evidence/{cid}.json",
                "replay_cmd_template": f"./vcheck {cid} --replay {{path}}",
                "engine": engine,
                "level_claimed": {
                    "category": mod.LEVEL,
                    "text": getattr(mod, "LEVEL_TEXT", TEXT[mod.LEVEL]),
                    "design_ref": "DESIGN.md section " + ref,
                },
                "level_note": "; ".join(getattr(mod, "ASSUMPTIONS", [])) or "SQLite backend; CPython + sqlite3 trusted",
                "technique": "runtime monitoring: " + technique,
            }
        )
    manifest = {
        "version": 1,
        "setup_cmd": "./setup.sh",
        "hooks": {
            "guard": "STABILIZE_VERIF",
            "enable": "no instrumentation is committed to /repo: the harness installs its hooks from outside (sqlite3.connect factory, SQL triggers in scratch databases, wrapped handler methods); STABILIZE_VERIF=1 is exported by the checks and read by nothing in /repo",
            "baseline_off_cmd": "cd /repo && /venv/bin/python -m pytest -ra -q -p no:cacheprovider --timeout=900 --continue-on-collection-errors",
            "source_commits": [],
            "add_only": True,
        },
        "engines": [
            {"name": "delivery", "path": "vrig/runs.py", "serves_properties": [c for c, m in META.items() if m[0] == "delivery"], "kind_free_text": "drives the real QueueProcessor one chosen delivery at a time (order, withheld acks, virtual time, injected actions)"},
            {"name": "crash", "path": "vrig/crash.py", "serves_properties": ["C01", "C10", "C13", "C06", "C09"], "kind_free_text": "commit-snapshot crash enumeration, fresh-worker resume, real os._exit cross-check"},
            {"name": "interleaving", "path": "vrig/interleave.py", "serves_properties": ["C04", "C07", "C08", "C11", "C18", "C06"], "kind_free_text": "cooperative scheduler with yield points at every SQL statement / commit of the worker threads"},
            {"name": "inputs", "path": "vrig/checks", "serves_properties": ["C08", "C19", "C20", "C09"], "kind_free_text": "hypothesis / seeded generators against the public API with reference models"},
        ],
        "checks": checks,
        "not_applicable": na,
        "notes": "No hook / instrumentation commits exist in /repo (hooks.source_commits is empty): everything is installed from the harness process. Unguarded fix: commits in /repo for genuine defects found by these checks: " + ", ".join(_fix_commits()) + " (see known_findings.json 'fixed' and DESIGN.md 10.3). All checks: exit 0 held / exit 1 VIOLATION / exit 2 INCONCLUSIVE (a monitor observed too little, never folded into held). Known findings: known_findings.json.",
    }
    with open(os.path.join(HERE, "MANIFEST.json"), "w") as f:
        json.dump(manifest, f, indent=1)
    print("checks:", [c["property_id"] for c in checks], "na:", [n["property_id"] for n in na])


def _fix_commits() -> list:
    import subprocess

    try:
        out = subprocess.run(["git", "-C", "/repo", "log", "--format=%h %s"], capture_output=True, text=True).stdout
        return [l.split()[0] for l in out.splitlines() if l.split(" ", 1)[1].startswith("fix:")]
    except Exception:
        return []


if __name__ == "__main__":
    main()

#!/venv/bin/python
"""Compare a junit xml of the repository's suite with /root/.vp/BASELINE.json stable_pass."""
import json
import sys
import xml.etree.ElementTree as ET

base = json.load(open("/root/.vp/BASELINE.json"))
stable = set(base["stable_pass"])
root = ET.parse(sys.argv[1]).getroot()
passed = set()
for tc in root.iter("testcase"):
    if not any(ch.tag in ("failure", "error", "skipped") for ch in tc):
        passed.add(f"{tc.get('classname')}::{tc.get('name')}")
missing = sorted(stable - passed)
print(f"stable_pass={len(stable)} passed_now={len(passed)} stable_but_not_passing={len(missing)}")
for m in missing[:20]:
    print("  MISSING", m)
sys.exit(1 if missing else 0)

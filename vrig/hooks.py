"""Instrumented sqlite3 connections (VConn).

`install()` replaces `sqlite3.connect` by a wrapper that passes
`factory=VConn`; the repository's ConnectionManager then hands VConn objects to
the store, the queue and the event store without any change to the repository.
Harness side connections use `raw_connect` (the original function).

Hooks (all optional, all process-global, set by the engines):
  stmt_hook(conn, sql, args)    before every statement and before COMMIT / ROLLBACK
                                (yield point; may raise = failpoint)
  commit_hook(conn)             after a commit that ended a non-empty transaction
  locked_hook(conn, sql, exc)   on "database is locked": return True to retry
                                the statement (the scheduler parked us meanwhile)
"""

from __future__ import annotations

import sqlite3
import threading

raw_connect = sqlite3.connect


class _Hooks:
    def __init__(self) -> None:
        self.stmt_hook = None
        self.commit_hook = None
        self.rollback_hook = None
        self.locked_hook = None
        self.statements = 0
        self.commits = 0
        self.rollbacks = 0

    def clear(self) -> None:
        self.stmt_hook = None
        self.commit_hook = None
        self.rollback_hook = None
        self.locked_hook = None


H = _Hooks()


def _is_locked(e: Exception) -> bool:
    s = str(e)
    return "locked" in s or "busy" in s


class VConn(sqlite3.Connection):
    def execute(self, sql, *args):  # type: ignore[override]
        h = H.stmt_hook
        if h is not None:
            h(self, sql, args)
        H.statements += 1
        while True:
            try:
                return super().execute(sql, *args)
            except sqlite3.OperationalError as e:
                lh = H.locked_hook
                if lh is None or not _is_locked(e) or not lh(self, sql, e):
                    raise

    def executescript(self, script):  # type: ignore[override]
        return super().executescript(script)

    def commit(self):  # type: ignore[override]
        h = H.stmt_hook
        if h is not None:
            h(self, "COMMIT", ())
        was = self.in_transaction
        while True:
            try:
                super().commit()
                break
            except sqlite3.OperationalError as e:
                lh = H.locked_hook
                if lh is None or not _is_locked(e) or not lh(self, "COMMIT", e):
                    raise
        if was:
            H.commits += 1
            ch = H.commit_hook
            if ch is not None:
                ch(self)

    def rollback(self):  # type: ignore[override]
        was = self.in_transaction
        super().rollback()
        if was:
            H.rollbacks += 1
            rh = H.rollback_hook
            if rh is not None:
                rh(self)


_installed = False
_lock = threading.Lock()


def _connect(*args, **kwargs):
    kwargs.setdefault("factory", VConn)
    return raw_connect(*args, **kwargs)


def install() -> None:
    global _installed
    with _lock:
        if not _installed:
            sqlite3.connect = _connect  # type: ignore[assignment]
            _installed = True


def uninstall() -> None:
    global _installed
    with _lock:
        if _installed:
            sqlite3.connect = raw_connect  # type: ignore[assignment]
            _installed = False

"""C10 - recovery sweeps: harmless on healthy workflows, idempotent after a crash."""

from __future__ import annotations

import random
from collections import Counter

from .. import crash, oracles, specs
from ..framework import viol
from ..runs import delivery_run, summarize
from . import c01, c02

ID = "C10"
LEVEL = "exploration"
RULE = (
    "(a) case = confluent workflow x delivery schedule (FIFO / shuffled with withheld acks) x EVERY step index i: a "
    "separate run with run_recovery() x1 or x2 injected before step i (plus runs with a sweep every 3rd/5th step), "
    "compared with the sweep-free reference on statuses, ancestor-derived contexts and per-task execution counts "
    "(extra messages are fine, extra effects are not). (b) for every commit-point crash snapshot: recover;recover;drain "
    "vs recover;drain under the C01 comparison. (c) interleaving engine: a recovery sweep on its own thread racing one "
    "handler (StartStage / StartTask / RunTask / CompleteTask / CompleteStage) from a durable cut point, every schedule with "
    "<= 1 preemption plus a sample (quick) / all (thorough) with 2. Non-trivial = sweep that pushed >= 1 message; distinct = (spec, multiset "
    "of message types the sweep pushed, step class)."
)
ASSUMPTIONS = ["SQLite backend", "confluent workflow family (outcome independent of delivery order), so runs whose schedule diverges after the injected sweep are still comparable"]
MIN_OBS = {"sweeps_injected": {"quick": 1500, "thorough": 20000}, "sweeps_that_pushed_messages": {"quick": 120, "thorough": 1500}, "double_recovery_snapshots": {"quick": 300, "thorough": 3500}}
TIMEOUT = {"quick": 800, "thorough": 3400}


def gen_cases(tier: str, seed: int) -> list[dict]:
    n = 20 if tier == "quick" else 100
    cases = [{"kind": "sweeps", "spec_i": i, "seed": seed, "order": o} for i in range(n) for o in (("fifo",) if tier == "quick" else ("fifo", "random"))]
    m = 6 if tier == "quick" else 40
    cases += [{"kind": "double", "spec_i": i * 3 % 18 if tier == "quick" else i, "seed": seed} for i in range(m)]
    for spec in range(4):
        for ty in PAIR_TYPES:
            for nth in ((1,) if tier == "quick" else (0, 1, 2)):
                cases.append({"kind": "pair", "spec": spec, "type": ty, "nth": nth, "seed": seed, "sample": 40 if tier == "quick" else 1500})
    # a sweep concurrent with the handler that wakes a suspended stage (the signal is sent by the harness)
    for persistent in (True, False):
        cases.append({"kind": "pair", "spec": 4, "type": "SignalStage", "nth": 0, "seed": seed, "sample": 60 if tier == "quick" else 1500, "persistent": persistent})
    return cases


def _classify(v: list[dict], run) -> list[dict]:
    if not v:
        return v
    w2 = oracles.sweep_overlapped_planning(run)
    if w2:
        return [viol("C10/sweep-overlaps-stage-planning:tasks-started-before-the-plan-commit", f"{w2}; symptoms {[x['sig'] for x in v][:5]}")]
    w = oracles.recovery_started_parent_before_children(run)
    if w:
        return [viol("C10/recovery-starts-parent-tasks-before-its-before-stages-finished", f"{w}; symptoms {[x['sig'] for x in v][:5]}")]
    return oracles.attribute(v, run, "C10")


def _sweeps(case: dict) -> dict:
    spec = c01._spec_for(case["spec_i"], case["seed"])
    ref = delivery_run(spec)
    obs: Counter = Counter()
    keys: set = set()
    violations = []
    rng = random.Random(case["seed"] * 13 + case["spec_i"])
    order = case["order"]
    budget = ref.steps * 6 + 150
    sample = None
    plans = [[{"at": i, "do": "recovery", "times": t}] for i in range(ref.steps + 1) for t in (1, 2)]
    plans += [[{"at": i, "do": "recovery", "times": 1} for i in range(0, ref.steps + 1, n)] for n in (3, 5)]
    for plan in plans:
        run = delivery_run(spec, seed=rng.randrange(1 << 30), order=order, noack_p=0.0 if order == "fifo" else 0.2, injections=plan, max_steps=budget)
        obs["evaluations"] += 1
        obs["sweeps_injected"] += sum(p["times"] for p in plan)
        groups = oracles.Groups(run.commits)
        pushed = Counter()
        for a in run.audit:
            if a["kind"] == "queue" and a["op"] == "ins":
                tag = groups.tag(groups.of(a["seq"]))
                if tag and tag[0] == "Recovery":
                    pushed[a["c"]] += 1
        if pushed:
            obs["sweeps_that_pushed_messages"] += 1
            keys.add(f"{spec['name']}:{sorted(pushed.items())}:{len(plan) > 1}")
        v = c02.compare_with_reference(spec, ref, run, prop="C10")
        if any("INCONCLUSIVE" in x["sig"] for x in v):
            obs["budget_exhausted"] += 1
            continue
        v2, _ = c02.effect_oracles(spec, run, prop="C10")
        v = _classify(v + v2, run)
        for x in v:
            x.update(spec=spec["name"], plan=plan[:3])
        violations += v
        if sample is None and pushed:
            sample = {"spec": spec["name"], "sweep_before_step": plan[0]["at"], "times": plan[0]["times"], "sweep_pushed": dict(pushed), "outcome": summarize(run), "reference_executions": len(ref.ledger)}
    return {"violations": _uniq(violations), "obs": dict(obs), "keys": sorted(keys), "sample": sample}


def _double(case: dict) -> dict:
    spec = c01._spec_for(case["spec_i"], case["seed"])
    ref, snaps = crash.reference_with_snapshots(spec)
    obs: Counter = Counter()
    keys: set = set()
    violations = []
    try:
        budget = ref.steps * 4 + 60
        for k in range(1, snaps.count):
            pre = crash.pre_ledger(ref, snaps, k)
            one, _ = crash.resume(snaps.path(k), pre, recoveries=1, max_steps=budget)
            two, _ = crash.resume(snaps.path(k), pre, recoveries=2, max_steps=budget)
            obs["evaluations"] += 2
            obs["double_recovery_snapshots"] += 1
            a, b = summarize(one), summarize(two)
            v = []
            if a["wf"] != b["wf"] or a["stages"] != b["stages"]:
                v.append(viol("C10/recover-twice-differs-from-once", f"crash after commit {k}: once {a['wf']} {a['stages']} vs twice {b['wf']} {b['stages']}"))
            ca, cb = oracles.exec_counts(one.ledger), oracles.exec_counts(two.ledger)
            if ca != cb:
                v.append(viol("C10/recover-twice-changes-execution-counts", f"crash after commit {k}: { {str(x): (ca.get(x, 0), cb.get(x, 0)) for x in set(ca) | set(cb) if ca.get(x, 0) != cb.get(x, 0)} }"))
            v = _classify(v, two)
            for x in v:
                x.update(spec=spec["name"], k=k)
            violations += v
            tag = snaps.tags[k]
            keys.add(f"double:{spec['name']}:{tag[0] if tag else None}")
    finally:
        snaps.cleanup()
    return {"violations": _uniq(violations), "obs": dict(obs), "keys": sorted(keys)}


def _uniq(vs: list[dict]) -> list[dict]:
    seen = set()
    out = []
    for x in vs:
        if x["sig"] not in seen:
            seen.add(x["sig"])
            out.append(x)
    return out


PAIR_TYPES = ["StartStage", "StartTask", "RunTask", "CompleteTask", "CompleteStage"]


def _pair(case: dict) -> dict:
    """(c) a recovery sweep running concurrently with one handler, statement-level interleaving."""
    import os

    from .. import interleave as il
    from ..world import World

    spec = [specs.diamond(True), specs.diamond(False), specs.synthetic(), specs.multitask(), specs.suspend_wf()][case["spec"]]
    sig_inj = [{"at": 10**6, "do": "signal", "ref": "w", "persistent": True, "id": "sS"}] if case["spec"] == 4 else None
    ref = delivery_run(spec, injections=[{"at": 40, "do": "signal", "ref": "w", "persistent": True, "id": "sS"}] if sig_inj else None)
    ty = case["type"]
    # cut: the n-th message of that type is pending
    w = World()
    cut = None
    try:
        w.submit(spec)
        seen = 0
        signalled = False
        for _ in range(300):
            rows = w.rows()
            if not rows and case["spec"] == 4 and not signalled and w.snapshot_state()["stages"]["w"]["status"] == "SUSPENDED":
                w.signal("w", "go", {"id": "sS"}, bool(case.get("persistent", True)))
                signalled = True
                rows = w.rows()
            if not rows:
                break
            ready = w.eligible(rows)
            if ready and ready[0]["type"] == ty:
                if seen == case["nth"]:
                    path = os.path.join(il.env.scratch_dir(), f"cut-{os.getpid()}-{random.randrange(1 << 40)}.db")
                    w.copy_db(path)
                    cut = (path, ready[0]["id"])
                    break
                seen += 1
            w.deliver(ready[0]["id"])
    finally:
        w.close()
    obs: Counter = Counter()
    keys: set = set()
    violations = []
    if cut is None:
        return {"violations": [], "obs": {"cut_point_not_reached": 1}, "keys": []}
    db, row = cut
    try:
        na = il.solo_length(db, row)
        # solo length of a sweep: run it alone once
        _, info = il.run_pair(db, [], il.Segments([("R", 10**6)]), extra_bodies={"R": lambda world: (lambda: world.run_recovery())}, drain=False)
        nb = info["steps"].get("R", 20)
        rng = random.Random(case["seed"] * 109 + case["spec"])
        scheds = il.bound_schedules(na, nb, 2, names=("W0", "R"), sample=case["sample"], rng=rng)
        for sc in scheds:
            run, info = il.run_pair(db, [row], il.Segments(sc), extra_bodies={"R": lambda world: (lambda: world.run_recovery())}, max_steps=ref.steps * 4 + 80)
            obs["evaluations"] += 1
            if run is None:
                obs["scheduler_watchdog"] += 1
                continue
            if info["switches"]:
                obs["sweep_handler_schedules_with_switch"] += 1
                keys.add(f"pair:{spec['name']}:{ty}:{info['trace_hash']}")
            v = []
            a, b = summarize(ref), summarize(run)
            if a["wf"] != b["wf"] or a["stages"] != b["stages"]:
                v.append(viol("C10/outcome-differs", f"sweep concurrent with {ty}: reference {a['wf']} {a['stages']} vs {b['wf']} {b['stages']}"))
            for k, n in oracles.exec_counts(run.ledger).items():
                if n > 1:
                    v.append(viol("C10/execution-count-differs:extra", f"{k} executed {n} times after the cut (sweep concurrent with {ty})"))
            v2, _ = c02.effect_oracles(spec, run, prop="C10")
            v = _classify(v + v2, run)
            for x in v:
                x.update(spec=spec["name"], pair=ty, schedule=sc)
            violations += v
    finally:
        os.unlink(db)
    return {"violations": _uniq(violations), "obs": dict(obs), "keys": sorted(keys)}


def run_case(case: dict) -> dict:
    if case["kind"] == "pair":
        return _pair(case)
    return _sweeps(case) if case["kind"] == "sweeps" else _double(case)

"""C06 - completed is final; every durable status change is a legal transition."""

from __future__ import annotations

import random
from collections import Counter

from .. import crash, oracles, specs
from ..runs import delivery_run
from . import c01, c05

ID = "C06"
LEVEL = "exploration"
RULE = (
    "every durable status row (SQL trigger AFTER UPDATE OF status on workflow / stage / task tables; rolled-back rows "
    "never appear) of: delivery-engine runs over the full workflow family with random order, withheld acks, injected "
    "cancels, signals, duplicate StartStage, recovery sweeps, operator RestartStage and pause / unpause; jump-heavy loops; crash-engine "
    "runs (every 3rd commit snapshot resumed with recovery); and - via the interleaving engine - racing workers, also with an operator thread (cancel / pause + unpause / restart "
    "of a finished stage issued at a random point while 3 workers run; and CancelWorkflow x StartWorkflow / CompleteWorkflow "
    "handler pairs under every schedule with <= 2 preemptions; the operator races also with a worker COMMIT failing now and "
    "then with 'database is locked'; and RunTask / CompleteTask / StartTask / CompleteStage whose n-th commit fails once "
    "with a lock error - the engine retries with the same in-memory stage - x a CancelStage of the same stage handled by "
    "another worker at every yield point of the first, in particular between the failed commit and the retry). Oracle: "
    "(old -> new) is in VALID_TRANSITIONS and old is not a completed status, unless the row sits in a commit group that "
    "carries a JumpToStage / RestartStage processed mark (the explicit re-arm). Non-trivial = a status row; distinct = "
    "(entity kind, old, new, re-arm?) edges observed."
)
ASSUMPTIONS = ["SQLite backend", "re-arm exemption is decided from the engine's own processed mark in the same commit group, not from timing"]
MIN_OBS = {"transitions_checked": {"quick": 20000, "thorough": 300000}, "operator_action_runs": {"quick": 60, "thorough": 800}, "workflow_row_writer_pairs_with_switch": {"quick": 100, "thorough": 1500}, "commit_fault_pair_runs": {"quick": 3000, "thorough": 15000}}
TIMEOUT = {"quick": 800, "thorough": 3400}


def gen_cases(tier: str, seed: int) -> list[dict]:
    n = 60 if tier == "quick" else 500
    cases = [{"kind": "delivery", "spec_i": i, "seed": seed, "nsched": 16 if tier == "quick" else 30} for i in range(n)]
    cases += [{"kind": "crash", "spec_i": i, "seed": seed} for i in range(12 if tier == "quick" else 60)]
    cases += [{"kind": "race", "i": i, "seed": seed} for i in range(8 if tier == "quick" else 60)]
    cases += [{"kind": "race", "i": 1000 + i, "seed": seed, "ops": True} for i in range(12 if tier == "quick" else 120)]
    cases += [{"kind": "race", "i": 3000 + i, "seed": seed, "ops": True, "faults": True} for i in range(16 if tier == "quick" else 160)]
    for other in ("StartWorkflow", "CompleteWorkflow"):
        for sp in range(2):
            cases.append({"kind": "cancel_pair", "other": other, "spec": sp, "seed": seed, "sample": 100 if tier == "quick" else 1500})
    for first in ("RunTask", "CompleteTask", "StartTask", "CompleteStage"):
        for sp in range(3):
            cases.append({"kind": "fault_pair", "first": first, "spec": sp, "seed": seed, "sample": 30 if tier == "quick" else 300})
    for sp in (3, 4):
        # a task body that raises: RunTask's error-recording save x the CancelStage of the same stage
        cases.append({"kind": "fault_pair", "first": "RunTask", "spec": sp, "seed": seed, "nofault": True, "sample": 60 if tier == "quick" else 600})
        cases.append({"kind": "fault_pair", "first": "RunTask", "spec": sp, "seed": seed, "sample": 30 if tier == "quick" else 300})
    return cases


def _delivery(case: dict) -> dict:
    spec = c05._spec_for(case["spec_i"], case["seed"])
    if case["spec_i"] % 20 == 19:
        spec = specs.restart_forward_jump()
    rng = random.Random(case["seed"] * 29 + case["spec_i"])
    obs: Counter = Counter()
    edges: Counter = Counter()
    violations = []
    refs = [s["ref"] for s in spec["stages"]]
    ref = delivery_run(spec, max_steps=1500)
    for j in range(case["nsched"]):
        inj = []
        m = j % 6
        if m == 5:
            # operator pause, then unpause (ResumeStage per parked stage), possibly twice
            ps = rng.randrange(2, max(3, ref.steps))
            inj.append({"at": ps, "do": "pause"})
            inj.append({"at": ps + rng.randrange(1, 15), "do": "unpause"})
            if rng.random() < 0.5:
                inj.append({"at": ps + rng.randrange(15, 40), "do": "unpause"})
        elif m == 1:
            inj.append({"at": rng.randrange(1, max(2, ref.steps)), "do": "cancel"})
        elif m == 2:
            inj.append({"at": ref.steps + rng.randrange(0, 40), "do": "restart_stage", "ref": refs[0] if spec["name"] == "restart_forward_jump" else rng.choice(refs)})
            if rng.random() < 0.5:
                inj.append({"at": rng.randrange(1, max(2, ref.steps)), "do": "restart_stage", "ref": rng.choice(refs)})
        elif m == 3:
            inj.append({"at": rng.randrange(1, max(2, ref.steps)), "do": "recovery", "times": 2})
            inj.append({"at": rng.randrange(1, max(2, ref.steps)), "do": "dup_start", "ref": rng.choice(refs)})
        elif m == 4 and any(b.get("kind") == "suspend" for s in spec["stages"] for b in s["t"]):
            sref = next(s["ref"] for s in spec["stages"] if any(b.get("kind") == "suspend" for b in s["t"]))
            inj.append({"at": rng.randrange(0, ref.steps + 5), "do": "signal", "ref": sref, "persistent": rng.random() < 0.7})
        run = delivery_run(spec, seed=rng.randrange(1 << 30), order=rng.choice(["random", "lifo", "fifo"]), noack_p=rng.choice([0.0, 0.25]), injections=inj, max_steps=ref.steps * 6 + 200)
        obs["evaluations"] += 1
        v, e = oracles.transition_check(run.audit, run.commits)
        v = _mechanism(v, run)
        edges.update(e)
        for x in v:
            x.update(spec=spec["name"], injections=inj)
        violations += v
    obs["transitions_checked"] = sum(edges.values())
    return {"violations": _uniq(violations), "obs": dict(obs), "keys": sorted(edges), "edges": dict(edges)}


def _crash(case: dict) -> dict:
    spec = c01._spec_for(case["spec_i"], case["seed"])
    ref, snaps = crash.reference_with_snapshots(spec)
    obs: Counter = Counter()
    edges: Counter = Counter()
    violations = []
    try:
        for k in range(1, snaps.count, 3):
            run, _ = crash.resume(snaps.path(k), crash.pre_ledger(ref, snaps, k), max_steps=ref.steps * 4 + 60)
            obs["evaluations"] += 1
            since = getattr(run, "since", 0)
            v, e = oracles.transition_check([a for a in run.audit if a["seq"] > since], run.commits)
            edges.update(e)
            for x in v:
                x.update(spec=spec["name"], crash_after_commit=k)
            violations += v
    finally:
        snaps.cleanup()
    obs["transitions_checked"] = sum(edges.values())
    obs["crash_resumes"] = obs["evaluations"]
    return {"violations": _uniq(violations), "obs": dict(obs), "keys": sorted(edges), "edges": dict(edges)}


def _race(case: dict) -> dict:
    try:
        from .. import interleave
    except ImportError:
        return {"violations": [], "obs": {}, "keys": []}
    res = interleave.race_for_c06(case)
    # mechanism: the operator's pause() lands between CompleteWorkflow's read of the execution and its
    # (unconditional) status write - the final status overwrites PAUSED, a change the table does not list
    out = []
    for v in res["violations"]:
        row = v.get("row") or {}
        if v["sig"].startswith("C06/illegal-transition:wf:PAUSED->") and row.get("d") in oracles.COMPLETE and "CompleteWorkflow" in v["msg"]:
            from ..framework import viol

            out.append(dict(v, **viol("C06/workflow-completed-over-a-concurrent-pause", v["msg"])))
        else:
            out.append(v)
    res["violations"] = _uniq(out)
    return res


def _cancel_pair(case: dict) -> dict:
    """CancelWorkflow x StartWorkflow and CancelWorkflow x CompleteWorkflow as the two designated handler
    invocations (both write the workflow row), every schedule with <= 2 preemptions (sampled): every durable
    change of the workflow row must still be a table transition, and a completed status stays."""
    import os

    from .. import interleave as il
    from ..world import World

    spec = [specs.chain(1), specs.diamond()][case["spec"]]
    w = World()
    cut = None
    try:
        w.submit(spec)
        for _ in range(300):
            rows = w.rows()
            if not rows:
                break
            tgt = [r for r in rows if r["type"] == case["other"]]
            if tgt and (case["other"] == "StartWorkflow" or len(rows) == 1):
                w.cancel()
                cw = [r for r in w.rows() if r["type"] == "CancelWorkflow"]
                if not cw:
                    break
                path = os.path.join(il.env.scratch_dir(), f"cut-{os.getpid()}-{random.randrange(1 << 40)}.db")
                w.store._get_connection().commit()
                w.copy_db(path)
                cut = (path, [tgt[0]["id"], cw[0]["id"]])
                break
            w.deliver(w.eligible(rows)[0]["id"])
    finally:
        w.close()
    obs: Counter = Counter()
    edges: Counter = Counter()
    violations = []
    keys: set = set()
    if cut is None:
        return {"violations": [], "obs": {"cut_point_not_reached": 1}, "keys": []}
    db, rows = cut
    try:
        na, nb = il.solo_length(db, rows[0]), il.solo_length(db, rows[1])
        rng = random.Random(case["seed"] * 71 + case["spec"])
        for sc in il.bound_schedules(na, nb, 2, sample=case["sample"], rng=rng):
            run, info = il.run_pair(db, rows, il.Segments(sc))
            obs["evaluations"] += 1
            if run is None:
                obs["scheduler_watchdog"] += 1
                continue
            if info["switches"]:
                obs["workflow_row_writer_pairs_with_switch"] += 1
                keys.add(f"cancelpair:{case['other']}:{info['trace_hash']}")
            v, e = oracles.transition_check(run.audit, run.commits)
            edges.update(e)
            for x in v:
                x.update(pair=f"CancelWorkflow x {case['other']}", schedule=sc)
            violations += v
    finally:
        os.unlink(db)
    obs["transitions_checked"] = sum(edges.values())
    return {"violations": _uniq(violations), "obs": dict(obs), "keys": sorted(keys), "edges": dict(edges)}


def _fault_pair(case: dict) -> dict:
    """A handler whose commit fails once with a lock error (TransactionHelper.execute_atomic then retries with the SAME
    in-memory stage) x a CancelStage of the same stage, handled by another worker between the failed commit and
    the retry - every commit of the first handler in turn, every schedule with <= 2 preemptions (sampled).  Whatever
    the retry writes, every durable status change must still be a table transition and a completed status stays."""
    import json as _json
    import os

    from .. import interleave as il
    from ..world import World

    raising = {"name": "raising", "confluent": True, "stages": [specs.st("a", [], [{"kind": "raise"}], ctx={"continuePipelineOnFailure": True}), specs.st("b", ["a"])]}
    raising2 = {"name": "raising2", "confluent": True, "stages": [specs.st("a"), specs.st("b", ["a"], [dict(specs.OK), {"kind": "raise"}]), specs.st("c", ["b"])]}
    spec = [specs.chain(2), specs.multitask(), specs.polling(1), raising, raising2][case["spec"]]
    obs: Counter = Counter()
    edges: Counter = Counter()
    violations: list = []
    keys: set = set()
    rng = random.Random(case["seed"] * 173 + case["spec"])
    w = World()
    cuts = []
    try:
        w.submit(spec)
        for _ in range(200):
            rows = w.eligible(w.rows())
            if not rows:
                break
            head = rows[0]
            if head["type"] == case["first"]:
                sid = _json.loads(head["payload"]).get("stage_id")
                path = os.path.join(il.env.scratch_dir(), f"cut-{os.getpid()}-{random.randrange(1 << 40)}.db")
                w.store._get_connection().commit()
                w.copy_db(path)
                cuts.append((path, head["id"], sid))
                if len(cuts) >= 2:
                    break
            w.deliver(head["id"])
    finally:
        w.close()
    for path, rid, sid in cuts:
        # in a copy: accept the cancel and handle CancelWorkflow, so that the CancelStage messages are queued
        w2 = il.copy_world(path)
        db = None
        try:
            from stabilize.queue.messages import CancelStage

            w2.wf_id = w2._exec_side("SELECT id FROM pipeline_executions LIMIT 1").fetchone()[0]
            # a CancelStage for that stage alone (what CancelRegion, a deferred-choice loser or a cancel accepted a
            # moment later sends): the workflow itself is not flagged, so the first handler takes its regular path
            w2.queue.push(CancelStage(execution_type="PIPELINE", execution_id=w2.wf_id, stage_id=sid))
            cs = [r for r in w2.rows() if r["type"] == "CancelStage" and _json.loads(r["payload"]).get("stage_id") == sid]
            if cs:
                db = os.path.join(il.env.scratch_dir(), f"cut-{os.getpid()}-{random.randrange(1 << 40)}.db")
                w2.store._get_connection().commit()
                w2.copy_db(db)
                pair = [rid, cs[0]["id"]]
        finally:
            w2.close()
            os.unlink(path)
        if db is None:
            obs["no_cancel_stage_for_cut"] += 1
            continue
        try:
            na, nb = il.solo_length(db, pair[0]), il.solo_length(db, pair[1])
            solo, _info = il.run_pair(db, [pair[0]], il.Segments([("W0", 10**6)]), drain=False)
            ncommits = len([c for c in (solo.commits if solo else []) if c[3]]) or 3
            # n = None: no injected fault at all - the handler's own error-recording path (a task that raises) racing
            # the CancelStage is enough to make its save lose the optimistic lock and retry
            for n in ([None] if case.get("nofault") else range(min(ncommits, 4))):
                # every single-preemption schedule (the other worker runs to completion at each yield point of the
                # first, in particular between the failed commit and the retry) + a sample of two-preemption ones
                one = il.bound_schedules(na + 8, nb, 1)
                two = il.bound_schedules(na + 8, nb, 2, sample=case["sample"], rng=rng)[len(one):]
                scheds = one + (rng.sample(two, min(len(two), case["sample"])) if two else [])
                for sc in scheds:
                    fp = il.nth_commit_failpoint("W0", n if n is not None else 10**9)
                    run, info = il.run_pair(db, pair, il.Segments(sc), failpoint=fp)
                    obs["evaluations"] += 1
                    if run is None:
                        obs["scheduler_watchdog"] += 1
                        continue
                    if n is None:
                        obs["error_path_pair_runs"] += 1
                        if info["switches"]:
                            keys.add(f"errpair:{case['first']}:{spec['name']}:{info['trace_hash']}")
                    if fp.state["fired"]:
                        obs["commit_fault_pair_runs"] += 1
                        if info["switches"]:
                            keys.add(f"faultpair:{case['first']}:{n}:{info['trace_hash']}")
                    v, e = oracles.transition_check(run.audit, run.commits)
                    edges.update(e)
                    for x in v:
                        x.update(pair=f"{case['first']}(commit {n} fails once) x CancelStage", schedule=sc, spec=spec["name"])
                    violations += v
        finally:
            os.unlink(db)
    obs["transitions_checked"] = sum(edges.values())
    return {"violations": _uniq(violations), "obs": dict(obs), "keys": sorted(keys), "edges": dict(edges)}


def _mechanism(vs: list[dict], run) -> list[dict]:
    """Re-sign completed-status changes made by a JumpToStage that was handled after the cancel."""
    from ..framework import viol

    tau = next((a["seq"] for a in run.audit if a["kind"] == "cancel" and str(a["d"]) == "1"), None)
    out = []
    for v in vs:
        row = v.get("row") or {}
        if tau is not None and row.get("seq", 0) > tau and "JumpToStage" in v["msg"] and "complete-not-final" in v["sig"]:
            out.append(viol("C06/jump-handled-after-cancel-changes-completed-stage", v["msg"] + f" (cancel durable at seq {tau})"))
        else:
            out.append(v)
    return out


def _uniq(vs: list[dict]) -> list[dict]:
    seen = set()
    out = []
    for x in vs:
        if x["sig"] not in seen:
            seen.add(x["sig"])
            out.append(x)
    return out


def run_case(case: dict) -> dict:
    if case["kind"] == "delivery":
        return _delivery(case)
    if case["kind"] == "crash":
        return _crash(case)
    if case["kind"] == "fault_pair":
        return _fault_pair(case)
    if case["kind"] == "cancel_pair":
        return _cancel_pair(case)
    return _race(case)


def finalize(agg: dict) -> dict:
    edges: Counter = Counter()
    for r in agg["results"].values():
        edges.update(r.get("edges") or {})
    table = oracles.valid_transitions()
    all_edges = {f"{o}->{n}" for o, ns in table.items() for n in ns}
    seen = {e.split(":", 1)[1].replace("(rearm)", "") for e in edges}
    return {"observed_edges": dict(sorted(edges.items())), "table_edges_never_observed": sorted(all_edges - seen)}

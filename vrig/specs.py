"""Workflow specs (plain JSON-able dicts), builder, shape library, generator.

spec = {"name": str, "context": {...}, "stages": [stage...],
        "confluent": bool}            # final statuses independent of delivery order
stage = {"ref": str, "req": [refs], "t": [behaviour...], "join": "AND|OR|DISCRIMINATOR|N_OF_M|MULTI_MERGE",
         "thr": int, "split": "AND|OR", "conds": {ref: expr}, "mutex": str|None, "choice": str|None,
         "ctx": {...}, "type": "v" (predefined tasks) | "vb" (builder builds tasks) | "vs" (synthetic children),
         "before": [...], "after": [...], "onfail": [...], "reducers": {...}}
"""

from __future__ import annotations

import copy
import random
from typing import Any

OK = {"kind": "ok"}


def st(ref: str, req: list[str] | None = None, t: list[dict] | None = None, **kw: Any) -> dict:
    d = {"ref": ref, "req": list(req or []), "t": copy.deepcopy(t) if t is not None else [dict(OK, out=[ref + "_o"])]}
    d.update(kw)
    return d


def build_workflow(spec: dict):
    from stabilize.models.stage import JoinType, SplitType, StageExecution
    from stabilize.models.workflow import Workflow

    from .vtask import make_tasks

    stages = []
    for s in spec["stages"]:
        stype = s.get("type", "v")
        script: dict[str, Any] = {"ref": s["ref"], "t": s.get("t") or []}
        for k in ("before", "after", "onfail"):
            if s.get(k):
                script[k] = s[k]
        ctx = {"_v": script}
        ctx.update(copy.deepcopy(s.get("ctx") or {}))
        kwargs: dict[str, Any] = {}
        if s.get("reducers"):
            kwargs["output_reducers"] = dict(s["reducers"])
        stage = StageExecution(
            ref_id=s["ref"],
            type=stype,
            name=s.get("name", s["ref"]),
            context=ctx,
            requisite_stage_ref_ids=set(s.get("req") or []),
            join_type=JoinType[s.get("join", "AND")],
            join_threshold=int(s.get("thr", 0)),
            split_type=SplitType[s.get("split", "AND")],
            split_conditions=dict(s.get("conds") or {}),
            mutex_key=s.get("mutex"),
            deferred_choice_group=s.get("choice"),
            milestone_ref_id=s.get("milestone_ref"),
            milestone_status=s.get("milestone_status"),
            cancel_region=s.get("region"),
            **kwargs,
        )
        if stype == "v":
            stage.tasks = make_tasks(script["t"])
        stages.append(stage)
    wfa = spec.get("wf") or {}
    wf = Workflow.create(
        application="verif",
        name=spec.get("name", "wf"),
        stages=stages,
        context=copy.deepcopy(spec.get("context") or {}),
        pipeline_config_id=wfa.get("pipeline_config_id"),
    )
    if "max_concurrent_executions" in wfa:
        wf.is_limit_concurrent = True
        wf.max_concurrent_executions = int(wfa["max_concurrent_executions"])
    if "keep_waiting_pipelines" in wfa:
        wf.keep_waiting_pipelines = bool(wfa["keep_waiting_pipelines"])
    return wf


# ---------------------------------------------------------------------------
# DAG helpers
# ---------------------------------------------------------------------------


def ancestors(spec: dict, ref: str) -> set[str]:
    req = {s["ref"]: set(s.get("req") or []) for s in spec["stages"]}
    out: set[str] = set()
    todo = list(req.get(ref, ()))
    while todo:
        r = todo.pop()
        if r not in out:
            out.add(r)
            todo.extend(req.get(r, ()))
    return out


def descendants(spec: dict, ref: str) -> set[str]:
    return {s["ref"] for s in spec["stages"] if ref in ancestors(spec, s["ref"])}


def stage_of(spec: dict, ref: str) -> dict:
    for s in spec["stages"]:
        if s["ref"] == ref:
            return s
    raise KeyError(ref)


def or_branch_refs(spec: dict) -> set[str]:
    """Stages that are conditional branches of an OR-split: for them StartStage / SkipStage are the split's routing
    decision, not an idempotent nudge - a stray StartStage would BE a decision the split did not take."""
    splits = {s["ref"] for s in spec["stages"] if s.get("split") == "OR"}
    return {s["ref"] for s in spec["stages"] if splits & set(s.get("req") or [])}


def early_join_refs(spec: dict) -> set[str]:
    """Stages at or below a join that may fire before all its upstreams finished."""
    out: set[str] = set()
    for s in spec["stages"]:
        if s.get("join") in ("DISCRIMINATOR", "N_OF_M", "MULTI_MERGE") and len(s.get("req") or []) > 1:
            out.add(s["ref"])
            out |= descendants(spec, s["ref"])
    return out


# ---------------------------------------------------------------------------
# Shape library
# ---------------------------------------------------------------------------


def chain(n: int = 3, **kw: Any) -> dict:
    refs = [chr(ord("a") + i) for i in range(n)]
    return {"name": f"chain{n}", "confluent": True, "stages": [st(r, refs[i - 1 : i] if i else []) for i, r in enumerate(refs)]}


def diamond(pre: bool = True) -> dict:
    ty = "v" if pre else "vb"
    return {
        "name": "diamond" + ("" if pre else "_vb"),
        "confluent": True,
        "stages": [
            st("a", [], [dict(OK, out=["k", "a_o"], lout=["l"])], type=ty),
            st("b", ["a"], [dict(OK, out=["b_o"], lout=["l"])], type=ty),
            st("c", ["a"], [dict(OK, out=["c_o"], lout=["l"])], type=ty),
            st("d", ["b", "c"], [dict(OK, out=["d_o"])], type=ty),
        ],
    }


def multitask() -> dict:
    return {
        "name": "multitask",
        "confluent": True,
        "stages": [
            st("a", [], [dict(OK, out=["a1"]), dict(OK, out=["a2"], cout=["ca"]), dict(OK, out=["a3"])]),
            st("b", ["a"], [dict(OK, out=["b1"]), dict(OK, out=["k"])]),
            st("c", ["b"], [dict(OK, out=["c1"])], type="vb"),
        ],
    }


def terminal_mid() -> dict:
    """A terminal failure at a non-racing position (linear chain)."""
    return {
        "name": "terminal_mid",
        "confluent": True,
        "stages": [st("a"), st("b", ["a"], [dict(OK, out=["b1"]), {"kind": "term"}]), st("c", ["b"])],
    }


def failed_continue() -> dict:
    return {
        "name": "failed_continue",
        "confluent": True,
        "stages": [
            st("a"),
            st("b", ["a"], [{"kind": "fc", "out": ["b_fc"]}]),
            st("c", ["a"], [{"kind": "term"}], ctx={"continuePipelineOnFailure": True}),
            st("d", ["b", "c"]),
        ],
    }


def polling(n: int = 2) -> dict:
    return {
        "name": f"polling{n}",
        "confluent": True,
        "stages": [st("a"), st("b", ["a"], [{"kind": "poll", "n": n, "out": ["b_o"]}, dict(OK, out=["b2"])]), st("c", ["b"])],
    }


def transient(n: int = 2, cu: bool = True) -> dict:
    return {
        "name": f"transient{n}{'cu' if cu else ''}",
        "confluent": True,
        "stages": [st("a"), st("b", ["a"], [{"kind": "transient", "n": n, "cu": cu, "out": ["b_o"]}]), st("c", ["b"])],
    }


def jump_loop(times: int = 2, body: int = 3) -> dict:
    """a -> b -> c ; c jumps back to a `times` times."""
    refs = [chr(ord("a") + i) for i in range(body)]
    stages = []
    for i, r in enumerate(refs):
        if i == body - 1:
            t = [{"kind": "jump", "to": refs[0], "times": times, "out": [r + "_o"]}]
        else:
            t = [dict(OK, out=[r + "_o", "k"])]
        stages.append(st(r, refs[i - 1 : i] if i else [], t))
    stages.append(st("z", [refs[-1]]))
    return {"name": f"jump{times}x{body}", "confluent": True, "stages": stages}


def self_loop(times: int = 2) -> dict:
    return {
        "name": f"selfloop{times}",
        "confluent": True,
        "stages": [st("a", [], [dict(OK, out=["a1"]), {"kind": "jump", "to": "a", "times": times, "out": ["a_o"]}]), st("z", ["a"])],
    }


def jump_side_branch(times: int = 2) -> dict:
    """root r -> (a -> b -> c[jump to a]) and side s ; join j needs c and s."""
    return {
        "name": f"jumpside{times}",
        "confluent": True,
        "stages": [
            st("r"),
            st("a", ["r"], [dict(OK, out=["a_o", "k"])]),
            st("b", ["a"], [dict(OK, out=["b_o"])]),
            st("c", ["b"], [{"kind": "jump", "to": "a", "times": times, "out": ["c_o"]}]),
            st("s", ["r"], [dict(OK, out=["s_o"])]),
            st("j", ["c", "s"], [dict(OK, out=["j_o"])]),
        ],
    }


def jump_body_side_chain(times: int = 2) -> dict:
    """a -> b -> c[jump to a] -> z with a side chain a -> s -> t inside the loop body that also feeds the jumping
    join c: every iteration must re-run s and t, and c must wait for both b and t each time."""
    return {
        "name": f"jumpbodyside{times}",
        "confluent": True,
        "stages": [
            st("a", [], [dict(OK, out=["a_o", "k"])]),
            st("b", ["a"], [dict(OK, out=["b_o"])]),
            st("s", ["a"], [dict(OK, out=["s_o"])]),
            st("t", ["s"], [dict(OK, out=["t_o", "k"])]),
            st("c", ["b", "t"], [{"kind": "jump", "to": "a", "times": times, "out": ["c_o"]}]),
            st("z", ["c"], [dict(OK, out=["z_o"])]),
        ],
    }


def forward_jump() -> dict:
    """a jumps forward over the diamond b,c,d to e."""
    return {
        "name": "forward_jump",
        "confluent": True,
        "stages": [
            st("a", [], [{"kind": "jump", "to": "e", "times": 1, "out": ["a_o"]}]),
            st("b", ["a"]),
            st("c", ["a"]),
            st("d", ["b", "c"]),
            st("e", ["d"]),
            st("f", ["e"]),
        ],
    }


def first_of(width: int = 2) -> dict:
    ups = [f"u{i}" for i in range(width)]
    return {
        "name": f"discriminator{width}",
        "confluent": True,  # statuses are; data at/below the join is schedule dependent
        "stages": [st("r", [], [dict(OK, out=["r_o"])])]
        + [st(u, ["r"], [dict(OK, out=[u + "_o"])]) for u in ups]
        + [st("j", ups, [dict(OK, out=["j_o"])], join="DISCRIMINATOR"), st("z", ["j"])],
    }


def quorum(width: int = 3, thr: int = 2) -> dict:
    ups = [f"u{i}" for i in range(width)]
    return {
        "name": f"nofm{thr}of{width}",
        "confluent": True,
        "stages": [st("r", [], [dict(OK, out=["r_o"])])]
        + [st(u, ["r"], [dict(OK, out=[u + "_o"])]) for u in ups]
        + [st("j", ups, [dict(OK, out=["j_o"])], join="N_OF_M", thr=thr), st("z", ["j"])],
    }


def synthetic() -> dict:
    return {
        "name": "synthetic",
        "confluent": True,
        "stages": [
            st("a"),
            st(
                "p",
                ["a"],
                [dict(OK, out=["p_o"])],
                type="vs",
                before=[{"t": [dict(OK, out=["pb_o"])]}],
                after=[{"t": [dict(OK, out=["pa_o"])]}],
            ),
            st("z", ["p"]),
        ],
    }


def or_split() -> dict:
    return {
        "name": "or_split",
        "confluent": True,
        "stages": [
            st("a", [], [dict(OK, raw={"go_b": True, "go_c": False}, out=["a_o"])], split="OR", conds={"b": "go_b", "c": "go_c"}),
            st("b", ["a"]),
            st("c", ["a"]),
            st("d", ["b", "c"], join="OR"),
        ],
    }


def skip_stage() -> dict:
    return {
        "name": "skip_stage",
        "confluent": True,
        "stages": [st("a"), st("b", ["a"], ctx={"stageEnabled": False}), st("c", ["b"])],
    }


def racing_failure() -> dict:
    """A terminal branch next to a running sibling: NOT status-confluent."""
    return {
        "name": "racing_failure",
        "confluent": False,
        "stages": [st("a"), st("b", ["a"], [{"kind": "term"}]), st("c", ["a"], [dict(OK), dict(OK)]), st("d", ["b", "c"])],
    }


def suspend_wf() -> dict:
    return {
        "name": "suspend",
        "confluent": True,
        "stages": [st("a"), st("w", ["a"], [{"kind": "suspend", "out": ["w_o"]}]), st("z", ["w"])],
    }


def mutex_pair() -> dict:
    return {
        "name": "mutex_pair",
        "confluent": True,
        "stages": [st("r"), st("m1", ["r"], mutex="M"), st("m2", ["r"], mutex="M"), st("z", ["m1", "m2"])],
    }


def choice_pair() -> dict:
    return {
        "name": "choice_pair",
        "confluent": False,
        "stages": [st("r"), st("c1", ["r"], choice="G"), st("c2", ["r"], choice="G")],
    }


def or_split_in_loop() -> dict:
    """A retry loop around an OR-split whose choice changes between iterations: a routes to b in the first
    iteration (b jumps back to a) and to c in the second, where b is skipped."""
    return {
        "name": "or_split_in_loop",
        "confluent": True,
        # c is skipped in the first iteration: whether the jump re-arms it (SKIPPED -> NOT_STARTED) depends on whether its
        # SkipStage was handled before the jump, so the per-stage iteration LABEL of its one execution is order-dependent
        "loose_iter_labels": True,
        "stages": [
            st("a", [], [dict(OK, raw_by_iter={"0": {"go_b": True, "go_c": False}, "1": {"go_b": False, "go_c": True}}, out=["a_o"])], split="OR", conds={"b": "go_b", "c": "go_c"}),
            st("b", ["a"], [{"kind": "jump", "to": "a", "times": 1, "out": ["b_o"]}]),
            st("c", ["a"], [dict(OK, out=["c_o"])]),
            st("d", ["b", "c"], [dict(OK, out=["d_o"])], join="OR"),
        ],
    }


def early_join_with_successor(jt: str = "DISCRIMINATOR") -> dict:
    """a, b initial; j = first-of / 2-of-2 join of (a, b); k follows a alone; z = AND(j, k): completing a has to
    record its branch on the early join AND start k - work that only a's completion can trigger."""
    j = st("j", ["a", "b"], [dict(OK, out=["j_o"])], join=jt, **({"thr": 2} if jt == "N_OF_M" else {}))
    return {
        "name": f"earlyjoin_successor_{jt}",
        "confluent": True,
        "stages": [st("a", [], [dict(OK, out=["a_o"])]), st("b", [], [dict(OK), dict(OK, out=["b_o"])]), j, st("k", ["a"], [dict(OK, out=["k_o"])]), st("z", ["j", "k"], [dict(OK, out=["z_o"])])],
    }


def skippable_tasks() -> dict:
    """Stages whose first / middle / only task is a disabled SkippableTask."""
    return {
        "name": "skippable_tasks",
        "confluent": True,
        "stages": [
            st("a", [], [{"kind": "disabled"}, dict(OK, out=["a_o"])]),
            st("b", ["a"], [dict(OK, out=["b_o"]), {"kind": "disabled"}, dict(OK, out=["b_o2"])]),
            st("c", ["a"], [{"kind": "disabled"}]),
            st("d", ["b", "c"], [dict(OK, out=["d_o"]), {"kind": "disabled"}]),
        ],
    }


def stopped_branch() -> dict:
    """r -> x (fails with failPipeline=False: ends STOPPED, the workflow goes on) next to r -> a -> y: whatever the
    order in which x's CompleteWorkflow and the other branch's messages arrive, a and y run."""
    return {
        "name": "stopped_branch",
        "confluent": True,
        "stages": [
            st("r"),
            st("x", ["r"], [{"kind": "term"}], ctx={"failPipeline": False}),
            st("a", ["r"], [dict(OK, out=["a_o"]), dict(OK, out=["a_o2"])]),
            st("y", ["a"], [dict(OK, out=["y_o"])]),
        ],
    }


CONFLUENT_FAMILY = [
    lambda: chain(3),
    lambda: diamond(True),
    lambda: diamond(False),
    multitask,
    terminal_mid,
    failed_continue,
    lambda: polling(2),
    lambda: transient(2, True),
    lambda: transient(1, False),
    lambda: jump_loop(2, 3),
    lambda: self_loop(2),
    lambda: jump_side_branch(1),
    forward_jump,
    lambda: first_of(2),
    lambda: quorum(3, 2),
    synthetic,
    or_split,
    skip_stage,
    stopped_branch,
    or_split_in_loop,
    early_join_with_successor,
    lambda: early_join_with_successor("N_OF_M"),
    skippable_tasks,
]


# ---------------------------------------------------------------------------
# Random generator
# ---------------------------------------------------------------------------


def random_dag(rng: random.Random, max_stages: int = 7, allow_fail: bool = True, allow_special_joins: bool = True) -> dict:
    n = rng.randint(2, max_stages)
    refs = [f"s{i}" for i in range(n)]
    stages = []
    keys = ["k1", "k2", "k3"]
    for i, r in enumerate(refs):
        if i == 0:
            req: list[str] = []
        else:
            k = rng.choice([1, 1, 1, 2, 2, 3])
            req = sorted(rng.sample(refs[:i], min(k, i)))
            if rng.random() < 0.12:
                req = []  # another root
        ntasks = rng.choice([1, 1, 1, 2, 3])
        t = []
        for j in range(ntasks):
            beh: dict[str, Any] = {"kind": "ok", "out": [f"{r}_o{j}"]}
            if rng.random() < 0.5:
                beh["out"].append(rng.choice(keys))
            if rng.random() < 0.3:
                beh["lout"] = [rng.choice(["l1", "l2"])]
            t.append(beh)
        s = st(r, req, t, type=rng.choice(["v", "v", "vb"]))
        if len(req) > 1 and allow_special_joins:
            jt = rng.choice(["AND", "AND", "AND", "DISCRIMINATOR", "N_OF_M"])
            s["join"] = jt
            if jt == "N_OF_M":
                s["thr"] = rng.randint(1, len(req))
        if allow_fail and i > 0 and rng.random() < 0.15:
            kind = rng.choice(["term", "fc", "term_cont", "stop"])
            if kind == "term_cont":
                s["t"][-1] = {"kind": "term"}
                s.setdefault("ctx", {})["continuePipelineOnFailure"] = True
            else:
                s["t"][-1] = {"kind": kind}
        if rng.random() < 0.08:
            s["t"][0] = {"kind": "poll", "n": rng.randint(1, 2), "out": [f"{r}_p"]}
        if rng.random() < 0.06:
            s.setdefault("ctx", {})["stageEnabled"] = False
        if rng.random() < 0.07:
            # a SkippableTask that is disabled: the engine skips it and goes on with the next task / the stage's completion
            s["t"][rng.randrange(len(s["t"]))] = {"kind": "disabled"}
        if rng.random() < 0.15:
            s.setdefault("ctx", {})[rng.choice(keys)] = f"own.{r}"
        stages.append(s)
    if rng.random() < 0.4:
        # the order in which stages are listed / stored is not promised to be topological
        rng.shuffle(stages)
    spec = {"name": "rand", "stages": stages}
    spec["confluent"] = is_status_confluent(spec)
    return spec


def is_status_confluent(spec: dict) -> bool:
    """No halting failure can race a still-running sibling: conservatively, a spec is
    confluent when it has no halting task at all, or is a pure chain."""
    halting = False
    for s in spec["stages"]:
        cont = bool((s.get("ctx") or {}).get("continuePipelineOnFailure"))
        for b in s.get("t") or []:
            if b.get("kind") in ("term", "raise") and not cont:
                halting = True
            if b.get("kind") in ("stop", "cancel"):
                halting = True
    if not halting:
        return True
    # pure chain? (every stage has at most one requisite and at most one dependent)
    deps: dict[str, int] = {}
    for s in spec["stages"]:
        req = s.get("req") or []
        if len(req) > 1:
            return False
        for r in req:
            deps[r] = deps.get(r, 0) + 1
    roots = [s for s in spec["stages"] if not (s.get("req") or [])]
    return len(roots) == 1 and all(n <= 1 for n in deps.values())


def or_split_variant(rng: random.Random) -> dict:
    """OR-split with true / false / malformed conditions and a paired OR-join.
    The statically known activated set is recorded as d['or_active'] on the join."""
    width = rng.randint(2, 3)
    branches = [f"b{i}" for i in range(width)]
    raw = {}
    conds = {}
    active = []
    for b in branches:
        mode = rng.choice(["true", "false", "malformed", "none", "cmp"])
        if mode == "true":
            raw[f"go_{b}"] = True
            conds[b] = f"go_{b}"
            active.append(b)
        elif mode == "false":
            raw[f"go_{b}"] = False
            conds[b] = f"go_{b}"
        elif mode == "malformed":
            conds[b] = rng.choice(["go_((", "1 +", "__import__('os')", "missing_name.attr", "-'x'"])
        elif mode == "cmp":
            raw[f"n_{b}"] = rng.randint(0, 3)
            conds[b] = f"n_{b} >= 2"
            if raw[f"n_{b}"] >= 2:
                active.append(b)
        else:
            active.append(b)  # no condition -> activated by default
    if not active:
        active = [branches[0]]
    stages = [st("a", [], [dict(OK, raw=raw, out=["a_o"])], split="OR", conds=conds)]
    for b in branches:
        kind = rng.choice(["ok", "ok", "fc"])
        # branches of different length so that they finish at different moments
        pre = [dict(OK) for _ in range(rng.choice([0, 0, 1, 2]))]
        if rng.random() < 0.3:
            pre.append({"kind": "poll", "n": rng.randint(1, 2)})
        stages.append(st(b, ["a"], pre + [{"kind": kind, "out": [b + "_o"]}]))
    stages.append(st("j", branches, [dict(OK, out=["j_o"])], join="OR", or_active=sorted(active)))
    stages.append(st("z", ["j"]))
    return {"name": "orsplit_" + "".join(sorted(active)), "confluent": True, "stages": stages}


def synthetic_variant(rng: random.Random) -> dict:
    """Parent with before/after/on-failure children; some of them fail."""
    def child(kind: str) -> dict:
        return {"t": [{"kind": kind, "out": ["ch_o"]}]}

    bk = rng.choice(["ok", "ok", "term", "fc"])
    ak = rng.choice(["ok", "ok", "term", "fc"])
    pk = rng.choice(["ok", "ok", "term", "fc"])
    p = st("p", ["a"], [{"kind": pk, "out": ["p_o"]}], type="vs")
    if rng.random() < 0.8:
        p["before"] = [child(bk)] + ([dict(child("ok"), chain=rng.random() < 0.5)] if rng.random() < 0.4 else [])
    if rng.random() < 0.8:
        p["after"] = [child(ak)]
        if rng.random() < 0.4:
            # a second, slower after-stage running next to the first one
            p["after"].append({"t": [{"kind": "ok", "out": ["ch_o2"]}, {"kind": "ok", "out": ["ch_o3"]}]})
    if rng.random() < 0.5:
        p["onfail"] = [child(rng.choice(["ok", "term"]))]
    # the parent's own failure policy decides how a failure of its children / tasks is reported
    policy = rng.choice([None, None, None, {"continuePipelineOnFailure": True}, {"failPipeline": False}, {"allowSiblingStagesToContinueOnFailure": True}])
    if policy:
        p["ctx"] = dict(policy)
    side = st("s", ["a"], [dict(OK), dict(OK)])
    return {
        "name": f"syn_{bk}_{pk}_{ak}" + ("_" + next(iter(policy))[:4] if policy else ""),
        "confluent": all(k in ("ok", "fc") for k in (bk, ak, pk)) and not policy,
        "stages": [st("a"), p, side, st("z", ["p", "s"])],
    }


def failing_sibling_of_synthetic(rng: random.Random) -> dict:
    """a -> f (fails terminally) next to a -> p (parent with a synthetic before / after child) -> z: when the
    failure's chain and CompleteWorkflow overtake StartStage(p), p and its child start in a workflow that is
    already final and have to be wound down from there."""
    p = st("p", ["a"], [dict(OK, out=["p_o"])], type="vs")
    p["before"] = [{"t": [{"kind": rng.choice(["ok", "ok", "poll"]), "n": 1, "out": ["ch_o"]}]}]
    if rng.random() < 0.5:
        p["after"] = [{"t": [{"kind": "ok", "out": ["ch_a"]}]}]
    f = st("f", ["a"], [{"kind": rng.choice(["term", "term", "stop", "cancel"])}])
    return {"name": "fail_next_to_synthetic", "confluent": False, "stages": [st("a"), f, p, st("z", ["p"])]}


def jump_limit(max_jumps: int | None = None, level: str = "wf", shape: str = "loop", times: int = 10**6) -> dict:
    """A task that keeps asking to jump; the limit must end it."""
    if shape == "self":
        sp = self_loop(times)
    elif shape == "side":
        sp = jump_side_branch(times)
    else:
        sp = jump_loop(times, 3)
    sp["name"] = f"jumplimit_{shape}_{level}_{max_jumps}_{times}"
    if max_jumps is not None:
        if level == "wf":
            sp["context"] = {"_max_jumps": max_jumps}
        else:
            for s in sp["stages"]:
                s.setdefault("ctx", {})["_max_jumps"] = max_jumps
    return sp


def first_of_failing(rng: random.Random) -> dict:
    width = rng.randint(2, 3)
    ups = [f"u{i}" for i in range(width)]
    jt = rng.choice(["DISCRIMINATOR", "N_OF_M"])
    stages = [st("r")]
    for u in ups:
        kind = rng.choice(["ok", "ok", "term", "fc", "poll"])
        beh = {"kind": kind, "out": [u + "_o"]}
        if kind == "poll":
            beh["n"] = rng.randint(1, 3)
        stages.append(st(u, ["r"], [beh] + ([dict(OK)] if rng.random() < 0.4 else [])))
    j = st("j", ups, [dict(OK, out=["j_o"])], join=jt)
    if jt == "N_OF_M":
        j["thr"] = rng.randint(1, width)
    stages += [j, st("z", ["j"])]
    return {"name": f"{jt.lower()}_fail{width}", "confluent": False, "stages": stages}


def jump_fanin_off_body(times: int = 1) -> dict:
    """r -> a -> b -> c[jump to a]; side s; k needs (b, s) and is NOT in the re-arm set of a
    (it also depends on s), so it must run exactly once although b re-runs."""
    return {
        "name": f"jumpfanin{times}",
        "confluent": True,
        "stages": [
            st("r"),
            st("a", ["r"], [dict(OK, out=["a_o"])]),
            st("b", ["a"], [dict(OK, out=["b_o"])]),
            st("s", ["r"], [dict(OK, out=["s_o"])]),
            st("k", ["b", "s"], [dict(OK, out=["k_o"])]),
            st("c", ["b"], [{"kind": "jump", "to": "a", "times": times, "out": ["c_o"]}]),
        ],
    }


def jump_from_sibling(times: int = 1) -> dict:
    """r -> a -> j ; r -> x[jump to r]: the jump issued on a sibling branch re-arms r, a, j and x,
    possibly while j is being started."""
    return {
        "name": f"jumpsibling{times}",
        "confluent": False,
        "stages": [
            st("r"),
            st("a", ["r"], [dict(OK, out=["a_o"])]),
            st("j", ["a"], [dict(OK, out=["j_o"])]),
            st("x", ["r"], [{"kind": "jump", "to": "r", "times": times, "out": ["x_o"]}]),
        ],
    }


def two_target_jumps(slow: str = "b") -> dict:
    """root -> a, b -> join -> ctl; ctl jumps first to `join` (whose upstreams are complete at that moment), then
    to `root` (which re-arms a, b and join as ordinary downstream stages), then finishes.  One upstream is slower."""
    slow_t = [{"kind": "poll", "n": 2, "out": [slow + "_p"]}, dict(OK, out=[slow + "_o"])]
    return {
        "name": f"twotargets_{slow}",
        "confluent": True,
        "stages": [
            st("root"),
            st("a", ["root"], slow_t if slow == "a" else None),
            st("b", ["root"], slow_t if slow == "b" else None),
            st("join", ["a", "b"], [dict(OK, out=["join_o"])]),
            st("ctl", ["join"], [{"kind": "jump", "to": "join", "to_seq": ["join", "root"], "out": ["ctl_o"]}]),
        ],
    }


def skip_in_later_iteration(times: int = 1) -> dict:
    """a -> b -> c[jump back to a]; b is enabled by an expression over a's output, which is true in the first
    iteration and false afterwards: b runs, is re-armed by the jump, and is then skipped."""
    return {
        "name": f"skip_later{times}",
        "confluent": True,
        "stages": [
            st("a", [], [{"kind": "ok", "raw_by_iter": {"0": {"go": True}, **{str(i): {"go": False} for i in range(1, times + 1)}}, "out": ["a_o"]}]),
            st("b", ["a"], [dict(OK, out=["b_o"])], ctx={"stageEnabled": {"type": "expression", "expression": "a.go"}}),
            st("c", ["b"], [{"kind": "jump", "to": "a", "times": times, "by_iter": True, "out": ["c_o"]}]),
        ],
    }


def restart_forward_jump() -> dict:
    """a -> b -> c -> d all succeed; only when `a` is run again (operator restart) does it
    jump forward to c, over the already completed b."""
    return {
        "name": "restart_forward_jump",
        "confluent": True,
        "stages": [
            st("a", [], [{"kind": "jump", "to": "c", "times": 1, "from_iter": 1, "out": ["a_o"]}]),
            st("b", ["a"]),
            st("c", ["b"]),
            st("d", ["c"]),
        ],
    }

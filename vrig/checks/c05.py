"""C05 - when the engine goes quiet every workflow is finished or explicitly waiting."""

from __future__ import annotations

import random
from collections import Counter

from .. import oracles, specs
from ..runs import delivery_run

ID = "C05"
LEVEL = "exploration"
RULE = (
    "case = workflow from the FULL family (random DAGs with failing / stopping / failed-continue branches next to running "
    "ones, early-firing joins with failing or slow branches, synthetic before/after/on-failure stages that fail, "
    "suspending stages without a signal, jump loops that hit the limit, mutex / deferred-choice siblings) x delivery "
    "schedule (random / LIFO order, withheld acks, one message held back k steps). After the queue is drained the "
    "four quiescence predicates are evaluated on store.retrieve(). Non-trivial = quiescent run whose final state is not "
    "all-SUCCEEDED; distinct = (workflow status, sorted multiset of stage statuses, spec shape)."
)
ASSUMPTIONS = ["SQLite backend", "quiescence = queue_messages empty after virtual-time warps; wait-budget exhaustion (max_stage_wait_retries=6) ending TERMINAL is legal and counted"]
MIN_OBS = {"quiescent_runs": {"quick": 1000, "thorough": 20000}, "nonsuccess_final_states": {"quick": 100, "thorough": 2000}}
TIMEOUT = {"quick": 600, "thorough": 3000}

HOLD_TYPES = ["StartStage", "CompleteStage", "CompleteTask", "RunTask", "CancelStage", "CompleteWorkflow", "ContinueParentStage", "JumpToStage"]


def _spec_for(i: int, seed: int) -> dict:
    rng = random.Random(seed * 15485863 + i)
    m = i % 12
    if m < 5:
        sp = specs.random_dag(rng, max_stages=7)
        sp["name"] = f"rand{seed}_{i}"
        return sp
    if m < 7:
        return specs.synthetic_variant(rng)
    if m == 7:
        return specs.first_of_failing(rng)
    if m == 8:
        return specs.jump_limit(rng.choice([0, 1, 2, 3, None]), rng.choice(["wf", "stage"]), rng.choice(["loop", "self", "side"]))
    if m == 9:
        return rng.choice([specs.suspend_wf, specs.mutex_pair, specs.choice_pair, specs.racing_failure])()
    if m == 10:
        return specs.or_split_variant(rng)
    return rng.choice(specs.CONFLUENT_FAMILY)()


def gen_cases(tier: str, seed: int) -> list[dict]:
    n, k = (80, 20) if tier == "quick" else (500, 80)
    return [{"spec_i": i, "seed": seed, "nsched": k} for i in range(n)]


def run_case(case: dict) -> dict:
    spec = _spec_for(case["spec_i"], case["seed"])
    rng = random.Random(case["seed"] * 131 + case["spec_i"])
    obs: Counter = Counter()
    keys: set = set()
    violations = []
    ref = delivery_run(spec, max_steps=1500)
    budget = ref.steps * 6 + 200
    sample = None
    runs = [ref]
    for j in range(case["nsched"]):
        hold = None
        if j % 3 == 2:
            hold = {"type": rng.choice(HOLD_TYPES), "nth": rng.randrange(0, 3), "steps": rng.choice([3, 10, 40])}
        runs.append(delivery_run(spec, seed=rng.randrange(1 << 30), order=rng.choice(["random", "random", "lifo"]), noack_p=rng.choice([0.0, 0.2, 0.35]), hold=hold, max_steps=budget))
    for run in runs:
        obs["evaluations"] += 1
        if run.budget_exhausted or not run.quiescent:
            obs["budget_exhausted"] += 1
            continue
        obs["quiescent_runs"] += 1
        v = oracles.attribute(oracles.quiescence_check(run, "C05", spec), run, "C05")
        for x in v:
            x["spec"] = spec["name"]
        violations += v
        sts = sorted(s["status"] for s in run.state["stages"].values())
        if any(s != "SUCCEEDED" for s in sts) or run.state["wf"] != "SUCCEEDED":
            obs["nonsuccess_final_states"] += 1
            keys.add(f"{spec['name'].split('_')[0]}:{run.state['wf']}:{','.join(sts)}")
        if any(s["status"] == "SUSPENDED" for s in run.state["stages"].values()):
            obs["explicitly_waiting"] += 1
        if any("Exceeded max retries" in str(s["context"].get("exception")) for s in run.state["stages"].values()):
            obs["wait_budget_exhausted_terminal"] += 1
        if sample is None and run.state["wf"] != "SUCCEEDED":
            sample = {"spec": spec, "final": {"wf": run.state["wf"], "stages": {k: v["status"] for k, v in run.state["stages"].items()}}, "steps": run.steps}
    return {"violations": violations[:10], "obs": dict(obs), "keys": sorted(keys), "sample": sample}

"""Interleaving engine: worker threads under a cooperative scheduler whose yield
points are the SQL statements and commits of the engine's own connections.

Exactly one registered thread holds the baton.  At every VConn statement /
commit the running thread asks the policy who runs next.  A statement that fails
with "database is locked" (busy timeout 0) parks the thread until another thread
commits or rolls back - what SQLite's busy handler does, minus the wall clock;
when every live thread is parked on a lock the situation is SQLite's deadlock
case and the error is delivered to the application (its own retry paths run).
Threads not registered with the scheduler (main thread, bulkhead task threads)
are never scheduled.
"""

from __future__ import annotations

import hashlib
import os
import random
import re
import shutil
import threading
import time
from typing import Any, Callable

from . import env, hooks

_VERB = re.compile(r"\s*(\w+)(?:\s+(?:OR\s+\w+\s+)?(?:INTO|FROM)?\s*)?", re.I)
_TABLE = re.compile(r"(?:INTO|FROM|UPDATE|JOIN)\s+([A-Za-z_]+)", re.I)


def _label(sql: str) -> str:
    if sql in ("COMMIT", "ROLLBACK"):
        return sql
    s = sql.strip()
    verb = s.split(None, 1)[0].upper() if s else "?"
    m = _TABLE.search(s)
    return f"{verb}:{m.group(1) if m else ''}"


class Deadlock(Exception):
    pass


class Scheduler:
    def __init__(self, policy: "Policy", watchdog: float = 60.0) -> None:
        self.policy = policy
        self.cv = threading.Condition()
        self.state: dict[str, str] = {}  # name -> ready | blocked | parked | done
        self.order: list[str] = []
        self.current: str | None = None
        self.trace: list[tuple[str, str]] = []
        self.steps: dict[str, int] = {}
        self.switches = 0
        self.lock_blocks = 0
        self.deadlocks_delivered = 0
        self.watchdog = watchdog
        self.failed: str | None = None
        self.errors: dict[str, BaseException] = {}

    # ------------------------------------------------------------ thread side
    def _me(self) -> str | None:
        n = threading.current_thread().name
        return n if n in self.state else None

    def _wait_for_baton(self, me: str) -> None:
        deadline = time.time() + self.watchdog
        while self.current != me:
            if self.failed:
                raise Deadlock(self.failed)
            if not self.cv.wait(timeout=1.0) and time.time() > deadline:
                self.failed = f"watchdog: {me} waited {self.watchdog}s for the baton (states {self.state})"
                self.cv.notify_all()
                raise Deadlock(self.failed)

    def _runnable(self) -> list[str]:
        return [t for t in self.order if self.state[t] == "ready"]

    def _handover(self, me: str, nxt: str) -> None:
        if nxt != me:
            self.switches += 1
            self.current = nxt
            self.cv.notify_all()
            self._wait_for_baton(me)

    def stmt_hook(self, conn, sql, args) -> None:
        me = self._me()
        if me is None:
            return
        with self.cv:
            label = _label(sql if isinstance(sql, str) else "?")
            self.steps[me] += 1
            ready = self._runnable()
            nxt = self.policy.choose(self, me, ready, label)
            if nxt not in ready:
                nxt = me
            self._handover(me, nxt)
            self.policy.consumed(me)
            self.trace.append((me, label))
        fp = getattr(self, "failpoint", None)
        if fp is not None:
            fp(me, conn, sql)  # may raise (a lock error where the real database can fail that way)

    def point(self, label: str) -> None:
        """Extra yield point for shared in-memory state (called by harness-side wrappers of
        thread-safe engine objects, never while one of their locks is held)."""
        me = self._me()
        if me is None:
            return
        with self.cv:
            self.steps[me] += 1
            ready = self._runnable()
            nxt = self.policy.choose(self, me, ready, label)
            if nxt not in ready:
                nxt = me
            self._handover(me, nxt)
            self.policy.consumed(me)
            self.trace.append((me, label))

    def commit_event(self, conn) -> None:
        """After any commit / rollback: lock waiters and idle workers may run again."""
        with self.cv:
            for t, st in self.state.items():
                if st in ("blocked", "parked"):
                    self.state[t] = "ready"

    def locked_hook(self, conn, sql, exc) -> bool:
        me = self._me()
        if me is None:
            return False
        with self.cv:
            self.lock_blocks += 1
            self.state[me] = "blocked"
            ready = self._runnable()
            if not ready:
                # every live thread waits for a lock: SQLite's deadlock rule - fail the statement
                self.state[me] = "ready"
                self.deadlocks_delivered += 1
                self.trace.append((me, "LOCKED!"))
                return False
            nxt = self.policy.choose(self, me, ready, "LOCKED")
            if nxt not in ready:
                nxt = ready[0]
            self.trace.append((me, "LOCKED"))
            self._handover(me, nxt)
            self.state[me] = "ready"
            self.policy.consumed(me)
            return True

    def park(self) -> bool:
        """Idle worker: give the baton away until someone commits. False if nobody else can run."""
        me = self._me()
        if me is None:
            return False
        with self.cv:
            self.state[me] = "parked"
            ready = self._runnable()
            if not ready:
                self.state[me] = "ready"
                return False
            nxt = self.policy.choose(self, me, ready, "PARK")
            if nxt not in ready:
                nxt = ready[0]
            self._handover(me, nxt)
            self.state[me] = "ready"
            return True

    def _finish(self, me: str) -> None:
        with self.cv:
            self.state[me] = "done"
            # wake lock waiters: this thread's locks are gone
            for t, st in self.state.items():
                if st in ("blocked", "parked"):
                    self.state[t] = "ready"
            ready = self._runnable()
            if ready:
                nxt = self.policy.choose(self, me, ready, "DONE")
                if nxt not in ready:
                    nxt = ready[0]
                self.current = nxt
            else:
                self.current = None
            self.cv.notify_all()

    # -------------------------------------------------------------- main side
    def run(self, bodies: dict[str, Callable[[], None]]) -> None:
        self.order = list(bodies)
        for n in self.order:
            self.state[n] = "ready"
            self.steps[n] = 0
        threads = []

        def wrap(name: str, fn: Callable[[], None]) -> Callable[[], None]:
            def runner() -> None:
                try:
                    with self.cv:
                        self._wait_for_baton(name)
                    fn()
                except Deadlock:
                    pass
                except BaseException as e:  # recorded, decided by the caller
                    self.errors[name] = e
                finally:
                    try:
                        from stabilize.persistence.connection import get_connection_manager

                        get_connection_manager().close_all()
                    except Exception:
                        pass
                    self._finish(name)

            return runner

        prev = (hooks.H.stmt_hook, hooks.H.locked_hook, hooks.H.rollback_hook)
        hooks.H.stmt_hook = self.stmt_hook
        hooks.H.locked_hook = self.locked_hook
        hooks.H.rollback_hook = self.commit_event
        try:
            for n, fn in bodies.items():
                t = threading.Thread(target=wrap(n, fn), name=n, daemon=True)
                threads.append(t)
            with self.cv:
                first = self.policy.choose(self, None, list(self.order), "START")
                self.current = first if first in self.order else self.order[0]
            for t in threads:
                t.start()
            deadline = time.time() + self.watchdog
            for t in threads:
                t.join(timeout=max(0.1, deadline - time.time()))
            if any(t.is_alive() for t in threads):
                with self.cv:
                    self.failed = self.failed or f"watchdog: threads still alive (states {self.state})"
                    self.cv.notify_all()
                for t in threads:
                    t.join(timeout=2.0)
        finally:
            hooks.H.stmt_hook, hooks.H.locked_hook, hooks.H.rollback_hook = prev

    def trace_hash(self) -> str:
        return hashlib.sha1(repr(self.trace).encode()).hexdigest()[:12]


# ---------------------------------------------------------------------------
# policies
# ---------------------------------------------------------------------------


class Policy:
    def choose(self, sched: Scheduler, me: str | None, ready: list[str], label: str) -> str:
        raise NotImplementedError

    def consumed(self, thread: str) -> None:
        """`thread` is about to execute (or retry) one statement."""


class Segments(Policy):
    """[(thread, n), ...]: `thread` executes n statements, then the next segment.
    A thread that finishes or blocks early hands over without spending a preemption;
    when the script is exhausted the running thread continues, then the others in order."""

    def __init__(self, segments: list[tuple[str, int]]) -> None:
        self.segments = list(segments)
        self.i = 0
        self.used = 0

    def choose(self, sched, me, ready, label):
        if not ready:
            return me
        while self.i < len(self.segments):
            t, n = self.segments[self.i]
            if t not in ready or self.used >= n:
                self.i += 1
                self.used = 0
                continue
            return t
        return me if me in ready else ready[0]

    def consumed(self, thread: str) -> None:
        if self.i < len(self.segments) and self.segments[self.i][0] == thread:
            self.used += 1


class RandomPolicy(Policy):
    def __init__(self, seed: int, switch_p: float = 0.3) -> None:
        self.rng = random.Random(seed)
        self.p = switch_p

    def choose(self, sched, me, ready, label):
        if not ready:
            return me
        if me in ready and label not in ("LOCKED", "PARK", "DONE", "START") and self.rng.random() > self.p:
            return me
        return self.rng.choice(ready)


class PCT(Policy):
    """Random priorities with d priority-change points (Burckhardt et al.)."""

    def __init__(self, seed: int, d: int = 3, horizon: int = 200) -> None:
        self.rng = random.Random(seed)
        self.prio: dict[str, float] = {}
        self.change = sorted(self.rng.sample(range(1, horizon), min(d, horizon - 1)))
        self.count = 0

    def choose(self, sched, me, ready, label):
        if not ready:
            return me
        for t in ready:
            self.prio.setdefault(t, self.rng.random() + 1.0)
        self.count += 1
        if self.change and self.count >= self.change[0] and me in self.prio:
            self.change.pop(0)
            self.prio[me] = self.rng.random() * 0.5  # drop below everyone
        return max(ready, key=lambda t: self.prio[t])


# ---------------------------------------------------------------------------
# helpers for scenarios
# ---------------------------------------------------------------------------


def prepare_env() -> None:
    """Busy timeout 0 so lock conflicts surface as errors the scheduler can see."""
    os.environ["STABILIZE_SQLITE_BUSY_TIMEOUT_MS"] = "0"
    from stabilize.persistence.sqlite_config import reset_sqlite_config

    reset_sqlite_config()


def copy_world(src_path: str, **kw: Any):
    from .world import World

    path = os.path.join(env.scratch_dir(), f"il-{os.getpid()}-{random.randrange(1 << 40)}.db")
    shutil.copyfile(src_path, path)
    kw.setdefault("base_time", os.path.getmtime(src_path))
    w = World(path=path, **kw)
    w.owns_file = True
    return w


def claim(world, row_id: int):
    """Claim a designated row through the real poll_one (from the calling thread)."""
    world.expose(row_id)
    msg = world.queue.poll_one()
    world.unhide()
    return msg


def worker_body(world, msg, ack: bool = True) -> Callable[[], None]:
    """What QueueProcessor.process_and_ack does for one message, on the calling thread."""

    def body() -> None:
        t = threading.current_thread().name
        world.current[t] = (type(msg).__name__, msg.message_id)
        try:
            try:
                # worker threads of one process may run QueueProcessor objects with different configurations
                getattr(world, "processor_by_thread", {}).get(t, world.processor)._handle_message(msg)
                if ack:
                    world.queue.ack(msg)
            except Exception as e:
                world.errors.append((t, type(msg).__name__, f"{type(e).__name__}: {e}"))
                msg.set_error_context(e)
                world.queue.reschedule(msg, world.processor.config.retry_delay)
        finally:
            world.current.pop(t, None)

    return body


def nth_commit_failpoint(thread: str, n: int):
    """One-shot: the n-th COMMIT of `thread` fails with 'database is locked'."""
    import sqlite3

    st = {"count": 0, "fired": False}

    def fp(me, conn, sql) -> None:
        if st["fired"] or me != thread or sql != "COMMIT" or not conn.in_transaction:
            return
        if st["count"] == n:
            st["fired"] = True
            raise sqlite3.OperationalError("database is locked")
        st["count"] += 1

    fp.state = st  # type: ignore[attr-defined]
    return fp


def run_pair(start_db: str, rows: list[int], policy: Policy, *, events: bool = False, extra_bodies: dict | None = None, drain: bool = True, max_steps: int = 400, same_message: bool = False, keep_world: bool = False, failpoint=None):
    """Two (or more) designated handler invocations interleaved at statement level from
    the durable state `start_db`; afterwards the rest of the workflow is drained FIFO."""
    from .runs import delivery_run

    prepare_env()
    w = copy_world(start_db, events=events)
    w.errors = []
    w.wf_id = w._exec_side("SELECT id FROM pipeline_executions ORDER BY created_at LIMIT 1").fetchone()[0]
    race_start_seq = w.max_seq()
    sched = Scheduler(policy)
    sched.failpoint = failpoint
    w.commit_listeners.append(lambda world, idx, conn: sched.commit_event(conn))
    msgs = []
    for rid in rows:
        m = claim(w, rid)
        msgs.append(m)
    bodies: dict[str, Callable[[], None]] = {}
    for i, m in enumerate(msgs):
        if m is not None:
            bodies[f"W{i}"] = worker_body(w, m)
    for name, mk in (extra_bodies or {}).items():
        bodies[name] = mk(w)
    # release harness locks on the other rows before the race (they only matter to poll_one)
    sched.run(bodies)
    info = {
        "trace_hash": sched.trace_hash(),
        "switches": sched.switches,
        "lock_blocks": sched.lock_blocks,
        "deadlocks": sched.deadlocks_delivered,
        "steps": dict(sched.steps),
        "failed": sched.failed,
        "thread_errors": {k: f"{type(v).__name__}: {v}" for k, v in sched.errors.items()},
        "handler_errors": list(w.errors),
        "trace": sched.trace,
    }
    if sched.failed:
        w.close()
        return None, info
    if drain and keep_world:
        run, _ = delivery_run({}, world=w, resubmit=False, max_steps=max_steps, keep_world=True)
        run.race_start_seq = race_start_seq  # type: ignore[attr-defined]
        run.since = race_start_seq  # type: ignore[attr-defined]
        info["world"] = w
    elif drain:
        run = delivery_run({}, world=w, resubmit=False, max_steps=max_steps)
        run.race_start_seq = race_start_seq  # type: ignore[attr-defined]
        run.since = race_start_seq  # type: ignore[attr-defined]  # rows of the pre-cut history belong to no commit of this world
    else:
        from .runs import Run

        run = Run()
        run.state = w.snapshot_state()
        run.ledger = list(w.ledger)
        run.audit = w.audit()
        run.commits = list(w.commits)
        run.queue_left = w.rows()
        run.quiescent = not run.queue_left
        w.close()
    return run, info


def cut_point(spec: dict, want: Callable[[list[dict], Any], list[int] | None], *, events: bool = False, max_steps: int = 400, order: str = "fifo", seed: int = 0, pre_hook=None) -> tuple[str, list[int]] | None:
    """Run the delivery engine until `want(pending_rows, world)` returns the row ids of the
    designated messages; returns (path of a copy of the database at that point, row ids)."""
    from .world import World

    w = World(events=events)
    try:
        w.submit(spec)
        if pre_hook:
            pre_hook(w)
        rng = random.Random(seed)
        for _ in range(max_steps):
            rows = w.rows()
            if not rows:
                return None
            got = want(rows, w)
            if got:
                path = os.path.join(env.scratch_dir(), f"cut-{os.getpid()}-{random.randrange(1 << 40)}.db")
                w.store._get_connection().commit()
                w.copy_db(path)
                return path, got
            ready = w.eligible(rows)
            if not ready:
                return None
            row = ready[0] if order == "fifo" else rng.choice(ready)
            w.deliver(row["id"])
        return None
    finally:
        w.close()


def bound_schedules(na: int, nb: int, bound: int, names: tuple[str, str] = ("W0", "W1"), sample: int | None = None, rng: random.Random | None = None) -> list[list[tuple[str, int]]]:
    """All segment scripts with at most `bound` preemptions for two threads whose solo
    lengths are na / nb yield points (optionally a random sample)."""
    a, b = names
    out: list[list[tuple[str, int]]] = [[(a, 10**6)], [(b, 10**6)]]
    if bound >= 1:
        for s in range(0, na + 1):
            out.append([(a, s), (b, 10**6)])
        for s in range(0, nb + 1):
            out.append([(b, s), (a, 10**6)])
    if bound >= 2:
        two = []
        for s1 in range(0, na + 1):
            for s2 in range(1, nb + 1):
                two.append([(a, s1), (b, s2), (a, 10**6)])
        for s1 in range(0, nb + 1):
            for s2 in range(1, na + 1):
                two.append([(b, s1), (a, s2), (b, 10**6)])
        if sample is not None and len(two) > sample:
            two = (rng or random.Random(0)).sample(two, sample)
        out += two
    return out


def solo_length(start_db: str, row: int, events: bool = False) -> int:
    run, info = run_pair(start_db, [row], Segments([("W0", 10**6)]), events=events, drain=False)
    return info["steps"].get("W0", 0)


# ---------------------------------------------------------------------------
# whole-workflow runs: N workers polling one queue
# ---------------------------------------------------------------------------


def run_workers(spec: dict, nworkers: int, policy: Policy, *, events: bool = False, max_msgs: int = 600, extra_bodies: dict | None = None, pre_hook=None, start_db: str | None = None, watchdog: float = 90.0, world_kw: dict | None = None, ack_fn=None, records: list | None = None, with_sched=None, keep_world: bool = False):
    """N worker threads, each looping poll_one -> _handle_message -> ack on the shared
    database, interleaved at statement granularity.  Idle workers park; when every worker
    is idle and only delayed rows remain, the earliest one is warped (virtual time)."""
    from .runs import Run
    from .world import PAST, World

    prepare_env()
    world_kw = world_kw or {}
    if start_db:
        w = copy_world(start_db, events=events, **world_kw)
        w.wf_id = w._exec_side("SELECT id FROM pipeline_executions ORDER BY created_at LIMIT 1").fetchone()[0]
    else:
        w = World(events=events, **world_kw)
        w.submit(spec)
    if pre_hook:
        pre_hook(w)
    w.errors = []
    sched = Scheduler(policy, watchdog=watchdog)
    undo = with_sched(sched, w) if with_sched else None
    w.commit_listeners.append(lambda world, idx, conn: sched.commit_event(conn))
    handled = [0]
    idle: set[str] = set()
    stop = [False]
    names = [f"W{i}" for i in range(nworkers)]

    def loop() -> None:
        me = threading.current_thread().name
        while not stop[0] and handled[0] < max_msgs:
            pre_seq = w.max_seq() if records is not None else 0
            try:
                msg = w.queue.poll_one()
            except Exception as e:  # QueueProcessor._poll_loop logs and polls again
                w.errors.append((me, "poll", f"{type(e).__name__}: {e}"))
                try:
                    w.queue._get_connection().rollback()
                except Exception:
                    pass
                sched.park()
                continue
            if msg is None:
                rows = w.rows()
                live = [r for r in rows if r["attempts"] < r["max_attempts"]]
                if not live:
                    idle.add(me)
                    if len(idle) == len(names):
                        stop[0] = True
                        break
                    if not sched.park():
                        stop[0] = True
                        break
                    idle.discard(me)
                    continue
                unlocked = [r for r in live if not r["locked_until"]]
                if unlocked and all(r["deliver_at"] > PAST and r["delayed"] for r in unlocked):
                    # only future-dated rows are claimable: virtual time may pass only when
                    # no other worker is busy (otherwise wait budgets would burn artificially)
                    idle.add(me)
                    if len(idle) == len(names):
                        tgt = min(unlocked, key=lambda r: r["due"])
                        w.harness_write([("UPDATE queue_messages SET deliver_at = ? WHERE id = ?", (PAST, tgt["id"]))])
                        w.vnow = max(w.vnow, tgt["due"])
                        idle.discard(me)
                        continue
                    if not sched.park():
                        tgt = min(unlocked, key=lambda r: r["due"])
                        w.harness_write([("UPDATE queue_messages SET deliver_at = ? WHERE id = ?", (PAST, tgt["id"]))])
                        w.vnow = max(w.vnow, tgt["due"])
                    idle.discard(me)
                    continue
                idle.add(me)
                parked = sched.park()
                idle.discard(me)
                if not parked:
                    # rows exist but are locked by nobody alive (withheld / dead worker): lapse the locks
                    w.harness_write([("UPDATE queue_messages SET locked_until = NULL", ())])
                continue
            idle.discard(me)
            handled[0] += 1
            post_poll_seq = w.max_seq() if records is not None else 0
            ack = True if ack_fn is None else bool(ack_fn(w, msg))
            rec = None
            if records is not None:
                mid = msg.message_id
                rec = {"thread": me, "polled": mid, "type": type(msg).__name__, "pre_seq": pre_seq, "post_poll_seq": post_poll_seq, "stage_id": getattr(msg, "stage_id", None), "task_id": getattr(msg, "task_id", None), "calls_before": sum(1 for c in w.handler_calls if c[0] == mid and (len(c) < 3 or c[2] == me)), "ack": ack}
            worker_body(w, msg, ack=ack)()
            if rec is not None:
                # handler entries are counted per worker thread: another worker handling the same message id at the
                # same time must not make a delivery that was acknowledged as a duplicate look handled
                rec["handled"] = sum(1 for c in w.handler_calls if c[0] == rec["polled"] and (len(c) < 3 or c[2] == me)) > rec["calls_before"]
                records.append(rec)
            if not ack:
                # the worker "forgot" the message: its visibility lock runs out (through the worker's
                # own connection, so a lock conflict parks this thread like any other statement)
                try:
                    c = w.queue._get_connection()
                    c.execute("UPDATE queue_messages SET locked_until = NULL WHERE message_id = ?", (msg.message_id,))
                    c.commit()
                except Exception as e:
                    w.errors.append((me, "lapse", f"{type(e).__name__}: {e}"))
                    try:
                        w.queue._get_connection().rollback()
                    except Exception:
                        pass

    bodies: dict[str, Callable[[], None]] = {n: loop for n in names}
    for name, mk in (extra_bodies or {}).items():
        bodies[name] = mk(w, stop)
    try:
        sched.run(bodies)
    finally:
        if undo:
            undo()
    info = {
        "trace_hash": sched.trace_hash(),
        "switches": sched.switches,
        "lock_blocks": sched.lock_blocks,
        "deadlocks": sched.deadlocks_delivered,
        "steps": dict(sched.steps),
        "failed": sched.failed,
        "thread_errors": {k: f"{type(v).__name__}: {v}" for k, v in sched.errors.items()},
        "handler_errors": list(w.errors),
        "handled": handled[0],
    }
    run = Run()
    try:
        if not sched.failed:
            # whatever is left (rescheduled after lock errors, locks of dead workers) is drained sequentially
            from .runs import delivery_run

            os.environ["STABILIZE_SQLITE_BUSY_TIMEOUT_MS"] = "0"
            if keep_world:
                run, _ = delivery_run({}, world=w, resubmit=False, max_steps=400, keep_world=True)
                info["world"] = w
                return run, info
            run = delivery_run({}, world=w, resubmit=False, max_steps=400, keep_world=False)
            w = None
    finally:
        if w is not None and not (keep_world and "world" in info):
            w.close()
    return (None if sched.failed else run), info


def race_for_c06(case: dict) -> dict:
    """Whole-workflow interleaved runs for the transition monitor (C06)."""
    from collections import Counter

    from . import oracles, specs

    rng = random.Random(case["seed"] * 43 + case["i"])
    edges: Counter = Counter()
    obs: Counter = Counter()
    violations = []
    for j in range(8):
        pick = rng.randrange(6)
        if pick == 0:
            spec = specs.random_dag(rng, max_stages=6)
        elif pick == 1:
            spec = specs.first_of_failing(rng)
        elif pick == 2:
            spec = specs.jump_loop(rng.randint(1, 3), 3)
        elif pick == 3:
            spec = specs.racing_failure()
        elif pick == 4:
            spec = specs.mutex_pair()
        else:
            spec = specs.synthetic_variant(rng)
        s = rng.randrange(1 << 30)
        if j % 4 == 3 or case.get("ops"):
            # operator actions from their own thread while the workers run: cancel, pause / unpause,
            # restart of a finished stage - every writer of the workflow row races the handlers
            r2 = random.Random(s)
            action = r2.choice(["cancel", "cancel", "pause", "restart"])

            def injector(w, sched, stop, _r=r2, _a=action, _spec=spec):
                idle_points(sched, _r.randrange(0, 300), stop)
                try:
                    if _a == "cancel":
                        w.cancel()
                    elif _a == "pause":
                        w.store.pause(w.wf_id, "verif")
                        idle_points(sched, _r.randrange(0, 80), stop)
                        w.orch.unpause(w.store.retrieve(w.wf_id))
                    else:
                        wf = w.store.retrieve(w.wf_id)
                        done = [st for st in wf.stages if st.status.is_complete and st.parent_stage_id is None]
                        if done:
                            w.orch.restart(wf, _r.choice(done).id)
                except Exception as e:  # an operator call that loses a lock race fails visibly; not our concern here
                    w.errors.append(("X", _a, f"{type(e).__name__}: {e}"))

            fp = commit_lock_failpoint(random.Random(s + 1), 0.08) if case.get("faults") else None
            run, info = race_run(spec, r2, injector=injector, nworkers=3, failpoint=fp)
            obs["operator_action_runs"] += 1
            if fp is not None:
                obs["commit_lock_faults_injected"] += fp.fired[0]
        else:
            run, info = run_workers(spec, 3, RandomPolicy(s, 0.3) if j % 2 else PCT(s, 3, 400))
        obs["evaluations"] += 1
        if run is None:
            obs["scheduler_watchdog"] += 1
            continue
        obs["interleaved_runs"] += 1
        v, e = oracles.transition_check(run.audit, run.commits)
        edges.update(e)
        for x in v:
            x.update(spec=spec.get("name"), policy_seed=s)
        violations += v
    obs["transitions_checked"] = sum(edges.values())
    seen = set()
    uniq = []
    for x in violations:
        if x["sig"] not in seen:
            seen.add(x["sig"])
            uniq.append(x)
    return {"violations": uniq, "obs": dict(obs), "keys": sorted(edges), "edges": dict(edges)}


def commit_lock_failpoint(rng: random.Random, p: float, limit: int = 3):
    """Failpoint for interleaved runs: now and then a worker's COMMIT fails with 'database is locked' (SQLITE_BUSY
    while taking the exclusive lock because another connection is reading).  At most `limit` faults per run so that
    no message runs out of attempts because of the injection."""
    import sqlite3

    fired = [0]

    def fp(me, conn, sql) -> None:
        if sql == "COMMIT" and conn.in_transaction and str(me).startswith("W") and fired[0] < limit and rng.random() < p:
            fired[0] += 1
            raise sqlite3.OperationalError("database is locked")

    fp.fired = fired  # type: ignore[attr-defined]
    return fp


def race_run(spec: dict, rng: random.Random, *, events: bool = False, injector=None, nworkers: int | None = None, keep_world: bool = False, world_kw: dict | None = None, pre_hook=None, max_msgs: int = 600, records: list | None = None, failpoint=None):
    """Whole-workflow run by 2-4 interleaved worker threads with a seeded random / PCT policy.
    `injector(world, sched, stop)` runs on its own scheduled thread 'X' (it idles with
    sched.point() and acts through the public API, so its statements interleave too)."""
    pol: Policy
    if rng.random() < 0.65:
        pol = RandomPolicy(rng.randrange(1 << 30), switch_p=rng.choice([0.1, 0.3, 0.5]))
    else:
        pol = PCT(rng.randrange(1 << 30), d=rng.choice([2, 3, 5]), horizon=rng.choice([400, 1500]))
    holder: dict = {}

    def with_sched(sched, w):
        holder["s"] = sched
        sched.failpoint = failpoint
        return None

    extra = {}
    if injector is not None:

        def mk(w, stop):
            def body() -> None:
                injector(w, holder["s"], stop)

            return body

        extra["X"] = mk
    return run_workers(spec, nworkers or rng.choice([2, 3, 4]), pol, events=events, extra_bodies=extra, with_sched=with_sched, keep_world=keep_world, world_kw=world_kw, pre_hook=pre_hook, watchdog=120.0, max_msgs=max_msgs, records=records)


def idle_points(sched: Scheduler, n: int, stop: list | None = None) -> None:
    for _ in range(n):
        if stop and stop[0]:
            return
        sched.point("idle")

#!/venv/bin/python
"""Keep a confirmed seeded change under /verif/seeded/<name>/ (patch.diff, demo.py, meta.json)."""
import json
import os
import shutil
import subprocess
import sys

HERE = os.path.dirname(os.path.dirname(os.path.abspath(__file__)))


def main():
    sid, name = sys.argv[1], sys.argv[2]
    caught_by = sys.argv[3] if len(sys.argv) > 3 else ""
    note = sys.argv[4] if len(sys.argv) > 4 else ""
    src = f"/tmp/seeds/{sid}"
    dst = os.path.join(HERE, "seeded", name)
    os.makedirs(dst, exist_ok=True)
    shutil.copy(os.path.join(src, "patch.diff"), dst)
    ported = os.path.join(src, "patch_ported.diff")
    if os.path.exists(ported):
        # the sub-agent wrote the change against an older HEAD; later fix: commits touched the same
        # lines, so the change was re-applied by hand on the current HEAD (same edit, new context)
        shutil.copy(os.path.join(src, "patch.diff"), os.path.join(dst, "patch_original.diff"))
        shutil.copy(ported, os.path.join(dst, "patch.diff"))
    shutil.copy(os.path.join(src, "demo.py"), dst)
    meta = json.load(open(os.path.join(src, "meta.json")))
    suite = ""
    for logname in ("suite_ported.log", "suite_mine.log"):
        p = os.path.join(src, logname)
        if os.path.exists(p):
            suite = open(p).read().strip().splitlines()[-1]
            break

    def rc(pypath):
        r = subprocess.run(["/venv/bin/python", "demo.py"], cwd=dst, env=dict(os.environ, PYTHONPATH=pypath), capture_output=True, text=True, timeout=180)
        return r.returncode

    wt = f"/tmp/wt/{sid}/src"
    meta["verified_by_me"] = {
        "suite_with_change": suite + " (the 222 errors are the Postgres parametrisations, identical on the unchanged tree; junit compared with BASELINE stable_pass)",
        "demo_with_change_rc": rc(wt) if os.path.isdir(wt) else None,
        "demo_without_change_rc": rc("/repo/src"),
        "caught_by": caught_by,
        "note": note,
        "ran": ["git -C /repo apply seeded/%s/patch.diff; ./vcheck <id> --tier quick; git -C /repo checkout -- ." % name, "PYTHONPATH=<tree>/src /venv/bin/python seeded/%s/demo.py" % name],
    }
    json.dump(meta, open(os.path.join(dst, "meta.json"), "w"), indent=1)
    print(name, meta["verified_by_me"])


if __name__ == "__main__":
    main()

"""C18 - persistent signals are never lost; a suspended stage resumes once per signal."""

from __future__ import annotations

import os
import random
from collections import Counter

from .. import crash
from .. import interleave as il
from .. import oracles, specs
from ..framework import viol
from ..runs import delivery_run, summarize
from . import c04

ID = "C18"
LEVEL = "exploration"
LEVEL_TEXT = "signal sent at every step of the reference run (sequential), every schedule with <= 2 preemptions of the signal handler against the suspending task result / the stage start (sampled in quick), and every crash point of the suspend/resume steps; held on what was produced"
RULE = (
    "workflow a -> w -> z where w's task suspends until a signal is present (variants: w has 2 tasks, w built by a "
    "builder). (1) delivery engine: one signal (persistent or transient, unique payload id) injected before EVERY step, "
    "FIFO and shuffled orders with withheld acks (the SignalStage message can be overtaken). (2) interleaving engine, "
    "pairs SignalStage x RunTask(returns suspend), SignalStage x StartStage(w), SignalStage x SignalStage. (1b) a gate that "
    "needs TWO persistent signals, sent before every pair of steps, with distinct and with identical name + payload: every "
    "signal resumes the task exactly once; and SignalStage x StartStage pairs on that gate with one signal already buffered; a retry "
    "loop upstream of the gate and operator restarts of the upstream stage after the signal was buffered (the re-arm must keep "
    "the buffer), SignalStage x JumpToStage pairs; and ONE signal for the two-signal gate whose SignalStage is handled by a "
    "second worker too (lock lapsed at every statement boundary of the first handling): one resume, not two. (3) crash "
    "engine: every commit snapshot of the suspend/resume run resumed as a fresh worker. Oracles from the ledger of the "
    "suspending task and the audit log: a persistent signal's payload is seen by the task exactly once, the stage "
    "completes, the buffer is empty; without a signal the stage stays SUSPENDED durably; never more than one resume per "
    "signal; a transient signal has an effect iff the stage was durably SUSPENDED when its handler committed. "
    "Non-trivial = signal handled while the stage was not yet SUSPENDED or racing the suspension; distinct = (stage "
    "status when the signal was handled, persistent?, order class) / trace hash."
)
ASSUMPTIONS = ["SQLite backend", "one signal per suspension (two signals for one suspension leave the second buffered by design)"]
MIN_OBS = {"signals_handled_before_suspension": {"quick": 300, "thorough": 4000}, "pair_schedules_with_switch": {"quick": 500, "thorough": 8000}, "second_worker_got_the_signal": {"quick": 40, "thorough": 40}}
TIMEOUT = {"quick": 800, "thorough": 3400}


def sus_spec(variant: int = 0) -> dict:
    if variant == 3:
        # a retry loop upstream of the gate: a -> c[jumps back to a once] -> w: a signal buffered on the not yet
        # started gate has to survive the jump that re-arms the gate with the rest of the loop's downstream
        w = specs.st("w", ["c"], [{"kind": "suspend", "out": ["w_o"]}])
        c = specs.st("c", ["a"], [{"kind": "jump", "to": "a", "times": 1, "out": ["c_o"]}])
        return {"name": "suspend3_loop_upstream", "confluent": True, "stages": [specs.st("a"), c, w, specs.st("z", ["w"])]}
    if variant == 1:
        w = specs.st("w", ["a"], [dict(specs.OK, out=["w0"]), {"kind": "suspend", "out": ["w_o"]}])
    elif variant == 2:
        w = specs.st("w", ["a"], [{"kind": "suspend", "out": ["w_o"]}], type="vb")
    else:
        w = specs.st("w", ["a"], [{"kind": "suspend", "out": ["w_o"]}])
    return {"name": f"suspend{variant}", "confluent": True, "stages": [specs.st("a"), w, specs.st("z", ["w"])]}


def gen_cases(tier: str, seed: int) -> list[dict]:
    cases = []
    for variant in (0, 1, 2, 3):
        for persistent in (True, False):
            for order in ("fifo", "random", "random_noack"):
                reps = 1 if tier == "quick" else 6
                for rep in range(reps):
                    cases.append({"kind": "seq", "variant": variant, "persistent": persistent, "order": order, "seed": seed * 100 + rep})
    chunks = 2 if tier == "quick" else 10
    for pair in ("signal_runtask", "signal_startstage", "signal_signal", "signal_jump"):
        for persistent in (True, False):
            for c in range(chunks):
                cases.append({"kind": "pair", "pair": pair, "persistent": persistent, "chunk": c, "chunks": chunks, "seed": seed, "sample": 150 if tier == "quick" else 3000})
    for moment in ("before_start", "while_running", "after_suspend"):
        cases.append({"kind": "crash", "moment": moment, "seed": seed})
    cases.append({"kind": "prebuffered", "seed": seed, "sample": 120 if tier == "quick" else 2500})
    for moment in ("before_start", "while_running", "after_suspend"):
        cases.append({"kind": "relapse", "moment": moment, "seed": seed})
    for same in (False, True):
        for order in ("fifo", "random", "random_noack"):
            for rep in range(1 if tier == "quick" else 5):
                cases.append({"kind": "multi", "same": same, "order": order, "seed": seed * 100 + rep})
    return cases


def signal_oracle(run, sent: list[dict], prop: str = "C18", race_start_seq: int | None = None) -> tuple[list[dict], Counter, set]:
    """sent: [{'id', 'persistent'}]; decides from ledger + audit + final state."""
    out = []
    obs: Counter = Counter()
    keys: set = set()
    st = run.state["stages"]
    w = st["w"]
    tl = oracles.Timeline(run.audit)
    groups = oracles.Groups(run.commits)
    # when was each SignalStage handled, and what was the stage's durable status then?
    import json as _json

    payloads = {x["a"]: x["d"] for x in run.audit if x["kind"] == "queue" and x["op"] == "ins" and x["c"] == "SignalStage"}
    handled_by_id: dict = {}
    during_by_id: dict = {}
    for a in run.audit:
        if a["kind"] == "mark" and a["op"] == "ins" and a["b"] == "SignalStage":
            g = groups.of(a["seq"])
            first = min((x["seq"] for x in run.audit if groups.of(x["seq"]) == g), default=a["seq"])
            try:
                sid_ = (_json.loads(payloads.get(a["a"]) or "{}").get("signal_data") or {}).get("id")
            except Exception:
                sid_ = None
            handled_by_id.setdefault(sid_, tl.at(w["id"], first - 1))
            # statuses the stage went through while this handler was (possibly) running
            lo = race_start_seq if race_start_seq is not None else first - 1
            during = {tl.at(w["id"], lo)} | {x["d"] for x in run.audit if x["kind"] == "status" and x["op"] == "stage" and x["a"] == w["id"] and lo < x["seq"] < first}
            during_by_id.setdefault(sid_, during)
    sus_idx = next(i for i, t in enumerate(w["tasks"]) if True and i == len(w["tasks"]) - 1)
    recs = [r for r in run.ledger if r["ref"] == "w" and r["task"] == sus_idx]
    seen = [r.get("signal") for r in recs if r.get("signal_name")]
    seen_ids = [s.get("id") if isinstance(s, dict) else None for s in seen]
    suspends = sum(1 for r in recs if str(r.get("result", "")).startswith("SUSPENDED"))
    obs["suspensions"] += suspends
    for sid in seen_ids:
        if seen_ids.count(sid) > 1:
            out.append(viol(f"{prop}/signal-delivered-twice", f"payload {sid} seen {seen_ids.count(sid)} times by the task"))
            break
    if len(recs) > 1 + len(sent):
        out.append(viol(f"{prop}/more-resumes-than-signals", f"suspending task executed {len(recs)} times for {len(sent)} signal(s)"))
    if not run.quiescent:
        out.append(viol(f"{prop}/not-quiescent", "queue not drained"))
        return out, obs, keys
    if not sent:
        if w["status"] != "SUSPENDED" or run.state["wf"] != "RUNNING":
            out.append(viol(f"{prop}/left-suspended-without-signal", f"no signal was sent: stage {w['status']}, workflow {run.state['wf']}"))
        return out, obs, keys
    for i, sg in enumerate(sent):
        when = handled_by_id.get(sg["id"])
        keys.add(f"{when}:{sg['persistent']}")
        if when != "SUSPENDED":
            obs["signals_handled_before_suspension"] += 1
        if sg["persistent"]:
            if len(sent) == 1:
                if seen_ids.count(sg["id"]) != 1:
                    mech = oracles._stuck_mechanism(st)
                    out.append(viol(f"{prop}/persistent-signal-lost{mech}", f"signal {sg['id']} handled while the stage was {when}: task saw payloads {seen_ids}; stage {w['status']}, workflow {run.state['wf']}, buffer {w['context'].get('_buffered_signals')}"))
                elif w["status"] != "SUCCEEDED" or run.state["wf"] != "SUCCEEDED":
                    out.append(viol(f"{prop}/resumed-but-not-completed", f"stage {w['status']} workflow {run.state['wf']}"))
                if w["context"].get("_buffered_signals"):
                    out.append(viol(f"{prop}/consumed-signal-still-buffered", f"{w['context'].get('_buffered_signals')}"))
        else:
            during = during_by_id.get(sg["id"], {when})
            if during != {"SUSPENDED"} and "SUSPENDED" in during:
                # the suspension became durable while the signal handler was in flight: the handler's
                # read is a valid linearisation point either way (transient signals are lossy by design)
                obs["transient_signal_raced_suspension"] += 1
                continue
            if when == "SUSPENDED":
                if sg["id"] not in seen_ids:
                    out.append(viol(f"{prop}/transient-signal-ignored-while-suspended", f"stage was SUSPENDED when the signal was handled but the task never saw {sg['id']}"))
            elif len(sent) == 1:
                if sg["id"] in seen_ids:
                    out.append(viol(f"{prop}/transient-signal-had-effect-while-not-suspended", f"stage was {when} when the transient signal was handled, yet the task saw it"))
                if when is not None and w["status"] != "SUSPENDED":
                    out.append(viol(f"{prop}/left-suspended-without-signal", f"transient signal discarded (stage was {when}); stage ends {w['status']} instead of waiting SUSPENDED"))
    return out, obs, keys


def _seq(case: dict) -> dict:
    spec = sus_spec(case["variant"])
    ref = delivery_run(spec)
    rng = random.Random(case["seed"])
    obs: Counter = Counter()
    keys: set = set()
    violations = []
    v, o, _ = signal_oracle(ref, [])
    violations += v
    order = "fifo" if case["order"] == "fifo" else "random"
    noack = 0.25 if case["order"] == "random_noack" else 0.0
    sample = None
    for step in range(ref.steps + 3):
        inj = [{"at": step, "do": "signal", "ref": "w", "persistent": case["persistent"], "id": f"sig{step}", "name": "go"}]
        if case["persistent"] and step % 3 == 2 and case["variant"] in (0, 1):
            # an operator restart of the finished upstream stage re-arms the gate too: a buffered signal stays
            inj.append({"at": step + rng.randrange(1, 6), "do": "restart_stage", "ref": "a"})
            obs["restart_injections"] += 1
        run = delivery_run(spec, seed=rng.randrange(1 << 30), order=order, noack_p=noack, injections=inj, max_steps=ref.steps * 5 + 80)
        obs["evaluations"] += 1
        v, o, k = signal_oracle(run, [{"id": f"sig{step}", "persistent": case["persistent"]}])
        obs.update(o)
        keys |= {f"{x}:{case['order']}" for x in k}
        for x in v:
            x.update(spec=spec["name"], signal_before_step=step, persistent=case["persistent"], order=case["order"])
        violations += v
        if sample is None and step == 4:
            sample = {"spec": spec["name"], "signal_before_step": step, "persistent": case["persistent"], "deliveries": [h.get("type") for h in run.handled], "task_executions": [(r["ref"], r["task"], r.get("result"), r.get("signal")) for r in run.ledger if r["ref"] == "w"], "final": summarize(run)}
    return {"violations": _uniq(violations), "obs": dict(obs), "keys": sorted(keys), "sample": sample}


def _multi(case: dict) -> dict:
    """A gate that needs TWO signals, both persistent, sent at every pair of steps (before the stage starts,
    while its task runs, after it suspended) - with distinct payloads and with IDENTICAL name and payload
    (two approvals that look the same are still two signals): every signal resumes the task exactly once."""
    spec = {"name": "suspend2", "confluent": True, "stages": [specs.st("a"), specs.st("w", ["a"], [{"kind": "suspend", "waits": 2, "out": ["w_o"]}]), specs.st("z", ["w"])]}
    rng = random.Random(case["seed"] * 211 + (1 if case["same"] else 0))
    order = "fifo" if case["order"] == "fifo" else "random"
    obs: Counter = Counter()
    keys: set = set()
    violations = []
    nsteps = 14
    for s1 in range(0, nsteps, 2):
        for s2 in range(s1, nsteps, 3):
            d1 = {"id": "same"} if case["same"] else {"id": "A"}
            d2 = {"id": "same"} if case["same"] else {"id": "B"}
            inj = [{"at": s1, "do": "signal", "ref": "w", "persistent": True, "data": d1, "name": "approve"}, {"at": s2, "do": "signal", "ref": "w", "persistent": True, "data": d2, "name": "approve"}]
            run = delivery_run(spec, seed=rng.randrange(1 << 30), order=order, noack_p=0.2 if case["order"] == "random_noack" else 0.0, injections=inj, max_steps=260)
            obs["evaluations"] += 1
            obs["two_signal_runs"] += 1
            recs = [r for r in run.ledger if r["ref"] == "w"]
            st_w = run.state["stages"]["w"]
            buf = st_w["context"].get("_buffered_signals") or []
            keys.add(f"multi:{case['same']}:{case['order']}:{min(s1, 9)}:{min(s2, 9)}")
            if not run.quiescent:
                continue
            ok = run.state["wf"] == "SUCCEEDED" and st_w["status"] == "SUCCEEDED" and len(recs) == 3 and not buf
            if not ok:
                violations.append(viol("C18/persistent-signal-lost:two-signals-one-gate" + (":identical-payloads" if case["same"] else ""), f"two persistent signals {d1} / {d2} sent before steps {s1} / {s2}: task executed {len(recs)} times (expected 1 + 2 resumes), stage {st_w['status']}, workflow {run.state['wf']}, buffer {buf}"))
    return {"violations": _uniq(violations), "obs": dict(obs), "keys": sorted(keys)}


def _relapse(case: dict) -> dict:
    """ONE persistent signal for a gate that needs two; its SignalStage is being handled by worker W0 when the row's
    lock lapses and a second worker polls and handles the same message - at EVERY statement boundary of W0's
    handling, with the signal sent before the gate started, while its task runs, or after it suspended.  The one
    signal is consumed once: the gate resumes once and waits (SUSPENDED) for the second signal, which never comes."""
    from ..world import World

    spec = {"name": "suspend2", "confluent": True, "stages": [specs.st("a"), specs.st("w", ["a"], [{"kind": "suspend", "waits": 2, "out": ["w_o"]}]), specs.st("z", ["w"])]}
    w = World()
    cut = None
    try:
        w.submit(spec)
        for step in range(200):
            rows = w.rows()
            st = w.snapshot_state()["stages"]["w"]["status"]
            moment_now = {"before_start": step == 1, "while_running": st == "RUNNING", "after_suspend": st == "SUSPENDED" and not rows}[case["moment"]]
            if moment_now:
                w.signal("w", "approve", {"id": "only"}, True)
                sig = [r for r in w.rows() if r["type"] == "SignalStage"]
                path = os.path.join(il.env.scratch_dir(), f"cut-{os.getpid()}-{random.randrange(1 << 40)}.db")
                w.store._get_connection().commit()
                w.copy_db(path)
                cut = (path, sig[0]["id"])
                break
            if not rows:
                break
            w.deliver(w.eligible(rows)[0]["id"])
    finally:
        w.close()
    obs: Counter = Counter()
    keys: set = set()
    violations = []
    if cut is None:
        return {"violations": [], "obs": {"cut_point_not_reached": 1}, "keys": []}
    db, row = cut
    FAR_ = "2999-01-01T00:00:00+00:00"
    try:
        na = il.solo_length(db, row)
        for s1 in range(0, na + 1):
            polled: dict = {}

            def mk(world, _polled=polled):
                def body() -> None:
                    c = world.queue._get_connection()
                    try:
                        c.execute("UPDATE queue_messages SET locked_until = NULL WHERE id = ?", (row,))
                        c.execute("UPDATE queue_messages SET locked_until = ? WHERE id != ? AND locked_until IS NULL", (FAR_, row))
                        c.commit()
                        msg = world.queue.poll_one()
                        _polled["got"] = msg is not None
                        if msg is not None:
                            il.worker_body(world, msg)()
                    finally:
                        try:
                            c.execute("UPDATE queue_messages SET locked_until = NULL WHERE locked_until = ?", (FAR_,))
                            c.commit()
                        except Exception:
                            c.rollback()

                return body

            run, info = il.run_pair(db, [row], il.Segments([("W0", s1), ("W9", 10**6), ("W0", 10**6)]), extra_bodies={"W9": mk})
            obs["evaluations"] += 1
            if run is None:
                obs["scheduler_watchdog"] += 1
                continue
            obs["signal_lock_lapsed_during_handling"] += 1
            if polled.get("got"):
                obs["second_worker_got_the_signal"] += 1
            keys.add(f"sigrelapse:{case['moment']}:{s1}:{polled.get('got')}")
            recs = [r for r in run.ledger if r["ref"] == "w"]
            st_w = run.state["stages"]["w"]
            buf = st_w["context"].get("_buffered_signals") or []
            if not run.quiescent:
                violations.append(viol("C18/not-quiescent", "queue not drained"))
                continue
            resumes = [r for r in recs if r.get("signal_name")]
            if len(resumes) + len(buf) > 1 or st_w["status"] == "SUCCEEDED":
                violations.append(viol("C18/one-signal-consumed-twice:same-message-handled-by-two-workers", f"one persistent signal sent {case['moment']}, its SignalStage handled by W0 and - lock lapsed after {s1} of {na} statements - by a second worker: the gate was resumed {len(resumes)} times (+ {len(buf)} still buffered) by one signal, stage {st_w['status']}"))
            elif len(resumes) + len(buf) < 1:
                violations.append(viol("C18/persistent-signal-lost:same-message-handled-by-two-workers", f"signal sent {case['moment']}: gate resumed {len(resumes)} times, stage {st_w['status']}, buffer {buf}"))
    finally:
        os.unlink(db)
    return {"violations": _uniq(violations), "obs": dict(obs), "keys": sorted(keys)}


def _prebuffered(case: dict) -> dict:
    """One persistent signal is already buffered on the (not yet started) two-signal gate when its StartStage
    races a second persistent SignalStage: the second signal's write lands between the claim and the plan commit
    in some schedules, and the plan has to keep BOTH entries of _buffered_signals."""
    from ..world import World

    spec = {"name": "suspend2", "confluent": True, "stages": [specs.st("a"), specs.st("w", ["a"], [{"kind": "suspend", "waits": 2, "out": ["w_o"]}]), specs.st("z", ["w"])]}
    w = World()
    cut = None
    try:
        w.submit(spec)
        w.signal("w", "approve", {"id": "first"}, True)
        for _ in range(200):
            rows = w.rows()
            if not rows:
                break
            wid = w.snapshot_state()["stages"]["w"]["id"]
            sig = [r for r in rows if r["type"] == "SignalStage"]
            if sig:
                w.deliver(sig[0]["id"])  # buffered: w has not started
                continue
            tgt = [r for r in rows if r["type"] == "StartStage" and c04._stage_id_of(r) == wid]
            if tgt:
                w.signal("w", "approve", {"id": "second"}, True)
                sig = [r for r in w.rows() if r["type"] == "SignalStage"]
                path = os.path.join(il.env.scratch_dir(), f"cut-{os.getpid()}-{random.randrange(1 << 40)}.db")
                w.copy_db(path)
                cut = (path, [sig[0]["id"], tgt[0]["id"]])
                break
            w.deliver(w.eligible(rows)[0]["id"])
    finally:
        w.close()
    obs: Counter = Counter()
    keys: set = set()
    violations = []
    if cut is None:
        return {"violations": [], "obs": {"cut_point_not_reached": 1}, "keys": []}
    db, rows = cut
    try:
        na, nb = il.solo_length(db, rows[0]), il.solo_length(db, rows[1])
        rng = random.Random(case["seed"] * 83)
        for sc in il.bound_schedules(na, nb, 2, sample=case["sample"], rng=rng):
            run, info = il.run_pair(db, rows, il.Segments(sc))
            obs["evaluations"] += 1
            if run is None:
                obs["scheduler_watchdog"] += 1
                continue
            if info["switches"]:
                obs["pair_schedules_with_switch"] += 1
                keys.add(f"prebuffered:{info['trace_hash']}")
            recs = [r for r in run.ledger if r["ref"] == "w"]
            st_w = run.state["stages"]["w"]
            buf = st_w["context"].get("_buffered_signals") or []
            if not (run.state["wf"] == "SUCCEEDED" and st_w["status"] == "SUCCEEDED" and len(recs) == 3 and not buf):
                violations.append(viol("C18/persistent-signal-lost:buffered-entry-dropped-by-the-plan-commit", f"signal 'first' was buffered before the stage started, 'second' raced its StartStage: task executed {len(recs)} times (expected 1 + 2 resumes), stage {st_w['status']}, workflow {run.state['wf']}, buffer {buf}; schedule {sc}"))
    finally:
        os.unlink(db)
    return {"violations": _uniq(violations), "obs": dict(obs), "keys": sorted(keys)}


def _cut(pair: str, persistent: bool):
    from ..world import World

    spec = sus_spec(3 if pair == "signal_jump" else 0)
    w = World()
    try:
        w.submit(spec)
        for _ in range(200):
            rows = w.rows()
            st = w.snapshot_state()["stages"]
            wid = st["w"]["id"]
            if pair == "signal_jump":
                # the signal for the (not yet started) gate is handled while the JumpToStage that re-arms the gate
                # with the rest of the loop's downstream is being applied
                jmp = [r for r in rows if r["type"] == "JumpToStage"]
                if jmp:
                    w.signal("w", "go", {"id": "sA"}, persistent)
                    sig = [r for r in w.rows() if r["type"] == "SignalStage"]
                    path = os.path.join(il.env.scratch_dir(), f"cut-{os.getpid()}-{random.randrange(1 << 40)}.db")
                    w.copy_db(path)
                    return path, [sig[0]["id"], jmp[0]["id"]], [{"id": "sA", "persistent": persistent}]
            if not rows:
                if pair == "signal_signal" and st["w"]["status"] == "SUSPENDED":
                    w.signal("w", "go", {"id": "sA"}, persistent)
                    w.signal("w", "go", {"id": "sB"}, persistent)
                    rows = w.rows()
                    ids = [r["id"] for r in rows if r["type"] == "SignalStage"]
                    path = os.path.join(il.env.scratch_dir(), f"cut-{os.getpid()}-{random.randrange(1 << 40)}.db")
                    w.copy_db(path)
                    return path, ids[:2], [{"id": "sA", "persistent": persistent}, {"id": "sB", "persistent": persistent}]
                return None
            target = None
            if pair == "signal_runtask":
                target = [r for r in rows if r["type"] == "RunTask" and c04._stage_id_of(r) == wid]
            elif pair == "signal_startstage":
                target = [r for r in rows if r["type"] == "StartStage" and c04._stage_id_of(r) == wid]
            if target:
                w.signal("w", "go", {"id": "sA"}, persistent)
                rows = w.rows()
                sig = [r for r in rows if r["type"] == "SignalStage"]
                path = os.path.join(il.env.scratch_dir(), f"cut-{os.getpid()}-{random.randrange(1 << 40)}.db")
                w.copy_db(path)
                return path, [sig[0]["id"], target[0]["id"]], [{"id": "sA", "persistent": persistent}]
            w.deliver(w.eligible(rows)[0]["id"])
        return None
    finally:
        w.close()


def _pair(case: dict) -> dict:
    cp = _cut(case["pair"], case["persistent"])
    obs: Counter = Counter()
    keys: set = set()
    violations = []
    if cp is None:
        return {"violations": [], "obs": {"cut_point_not_reached": 1}, "keys": []}
    db, rows, sent = cp
    sample = None
    try:
        na, nb = il.solo_length(db, rows[0]), il.solo_length(db, rows[1])
        rng = random.Random(case["seed"] * 79)
        scheds = il.bound_schedules(na, nb, 2, sample=case["sample"], rng=rng)
        scheds = [s for i, s in enumerate(scheds) if i % case["chunks"] == case["chunk"]]
        for sc in scheds:
            run, info = il.run_pair(db, rows, il.Segments(sc))
            obs["evaluations"] += 1
            if run is None:
                obs["scheduler_watchdog"] += 1
                continue
            if info["switches"]:
                obs["pair_schedules_with_switch"] += 1
                keys.add(f"{case['pair']}:{case['persistent']}:{info['trace_hash']}")
            v, o, _ = signal_oracle(run, sent, race_start_seq=getattr(run, "race_start_seq", None))
            obs.update(o)
            if v:
                lp = oracles.lost_plan_witness(run)
                if lp:
                    v = [viol("C18/stage-start-lost:plan-commit-lost-optimistic-lock-to-signal-write", f"{lp}; symptoms {[x['sig'] for x in v][:4]}")]
                elif any("stage-with-buffered-signal-never-started" in x["sig"] for x in v):
                    v = [viol("C18/stage-start-lost:claim-lost-optimistic-lock-to-signal-write-and-swallowed-as-duplicate", "; ".join(x["msg"] for x in v)[:500])]
            for x in v:
                x.update(pair=case["pair"], persistent=case["persistent"], schedule=sc)
            violations += v
            if sample is None and info["switches"] >= 2:
                sample = {"pair": case["pair"], "schedule": sc, "trace": [f"{t}:{l}" for t, l in info["trace"]][:70], "final": summarize(run)}
    finally:
        os.unlink(db)
    return {"violations": _uniq(violations), "obs": dict(obs), "keys": sorted(keys), "sample": sample}


def _crash(case: dict) -> dict:
    spec = sus_spec(0)
    step = {"before_start": 2, "while_running": 9, "after_suspend": 40}[case["moment"]]
    inj = [{"at": step, "do": "signal", "ref": "w", "persistent": True, "id": "sC", "name": "go"}]
    ref, snaps = crash.reference_with_snapshots(spec, injections=inj)
    obs: Counter = Counter()
    keys: set = set()
    violations = []
    try:
        sig_commit = next((k for k in range(snaps.count) if any(a["kind"] == "queue" and a["op"] == "ins" and a["c"] == "SignalStage" and a["seq"] <= snaps.max_seq[k] for a in ref.audit)), snaps.count)
        for k in range(max(1, sig_commit), snaps.count):
            run, _ = crash.resume(snaps.path(k), crash.pre_ledger(ref, snaps, k), max_steps=ref.steps * 4 + 60)
            obs["evaluations"] += 1
            obs["crash_points_resumed"] += 1
            v, o, _ = signal_oracle(run, [{"id": "sC", "persistent": True}])
            # the in-flight step may be executed again: one extra execution is allowed after a crash
            v = [x for x in v if "more-resumes" not in x["sig"]]
            if any("signal-delivered-twice" in x["sig"] or "persistent-signal-lost" in x["sig"] for x in v):
                tag = snaps.tags[k]
                pre_n = len(crash.pre_ledger(ref, snaps, k))
                inflight = [r for r in run.ledger[:pre_n] if r["ref"] == "w" and (r["commit"] == k + 1 or (tag and r.get("msg") == tag[1]))]
                if inflight:
                    v = [x for x in v if "signal-delivered-twice" not in x["sig"] and not ("persistent-signal-lost" in x["sig"] and "'sC', 'sC'" in x["msg"])]
                    obs["in_flight_resume_repeated_after_crash"] += 1
            for x in v:
                x.update(crash_after_commit=k, moment=case["moment"], in_flight=str(snaps.tags[k]))
            violations += v
            keys.add(f"crash:{case['moment']}:{snaps.tags[k][0] if snaps.tags[k] else None}")
    finally:
        snaps.cleanup()
    return {"violations": _uniq(violations), "obs": dict(obs), "keys": sorted(keys)}


def _uniq(vs: list[dict]) -> list[dict]:
    seen = set()
    out = []
    for x in vs:
        if x["sig"] not in seen:
            seen.add(x["sig"])
            out.append(x)
    return out


def run_case(case: dict) -> dict:
    if case.get("kind") == "multi":
        return _multi(case)
    if case.get("kind") == "prebuffered":
        return _prebuffered(case)
    if case.get("kind") == "relapse":
        return _relapse(case)
    if case["kind"] == "seq":
        return _seq(case)
    if case["kind"] == "pair":
        return _pair(case)
    return _crash(case)

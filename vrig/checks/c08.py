"""C08 - queue: at-least-once delivery, one holder at a time, no message ever lost."""

from __future__ import annotations

import json
import random
import threading
from collections import Counter
from datetime import timedelta

from .. import interleave as il
from ..framework import viol
from ..world import FAR, PAST, World

ID = "C08"
LEVEL = "exploration"
LEVEL_TEXT = "random operation sequences against an executable reference model, conservation checked at EVERY commit inside every operation (each is a crash point), statement-level interleavings of 2-3 pollers; held on what was produced"
RULE = (
    "(1) model-based: seeded random sequences (60-120 ops) of push / push inside a store transaction / poll / ack / "
    "reschedule / extend_lock / lock+delay expiry (time warp) / check_and_move_expired / move_to_dlq / replay_dlq / sizes "
    "on the real SqliteQueue (max_attempts 3) stepped beside a 60-line reference model (id -> place, attempts, visible, "
    "locked): a poll result must be a message the model considers visible (any of them) and None only when the model has "
    "none, sizes agree, a replayed message is delivered with the original type and fields. (2) conservation: after EVERY "
    "commit of the worker connection (= every crash point inside an operation) each pushed message is in exactly one "
    "of {queue, DLQ} unless acknowledged. (3) exclusivity: 2-3 poller threads on 1-4 rows under the cooperative "
    "scheduler (every schedule with <= 2 preemptions for two pollers, random for three; and two operators acting on one DLQ "
    "entry at once: replay x replay, replay x clear_dlq - the message ends up in at most one place, once): a row is never claimed by a "
    "second poller before the first acked / rescheduled / lost its lock. (4) processor level: a poison handler through "
    "the real QueueProcessor error path until the attempt limit; the message must end in the DLQ and replay unchanged. "
    "Non-trivial = sequence that reached the DLQ or had a lock expire, or poller schedule with a switch; distinct = "
    "operation-sequence hash / trace hash."
)
ASSUMPTIONS = ["SQLite backend", "the one-second SQL clock is handled by warps only (rows are made due / locks lapsed by rewriting their timestamps)"]
MIN_OBS = {"model_ops": {"quick": 15000, "thorough": 300000}, "commits_checked_for_conservation": {"quick": 15000, "thorough": 300000}, "poller_schedules_with_switch": {"quick": 500, "thorough": 10000}, "dlq_operator_schedules_with_switch": {"quick": 100, "thorough": 300}}
TIMEOUT = {"quick": 800, "thorough": 3400}


def gen_cases(tier: str, seed: int) -> list[dict]:
    cases = [{"kind": "model", "i": i, "seed": seed, "nseq": 10, "nops": 60 if tier == "quick" else 120} for i in range(80 if tier == "quick" else 800)]
    chunks = 2 if tier == "quick" else 8
    for nrows in (1, 2):
        for c in range(chunks):
            cases.append({"kind": "pollers2", "nrows": nrows, "chunk": c, "chunks": chunks, "seed": seed, "sample": 300 if tier == "quick" else 4000})
    cases += [{"kind": "pollers3", "i": i, "seed": seed, "runs": 30} for i in range(8 if tier == "quick" else 450)]
    cases += [{"kind": "poison", "i": i, "seed": seed} for i in range(4 if tier == "quick" else 30)]
    cases += [{"kind": "replayers", "other": o, "seed": seed, "sample": 150 if tier == "quick" else 2000} for o in ("replay", "clear")]
    cases += [{"kind": "sweepers", "seed": seed * 10 + j, "sample": 120 if tier == "quick" else 700} for j in range(2 if tier == "quick" else 6)]
    return cases


def _mk_message(rng: random.Random, uid: str):
    from stabilize.models.status import WorkflowStatus
    from stabilize.queue import messages as m

    k = rng.randrange(5)
    if k == 0:
        return m.StartStage(execution_type="PIPELINE", execution_id="E", stage_id=uid, retry_count=rng.randint(0, 3))
    if k == 1:
        return m.CompleteTask(execution_type="PIPELINE", execution_id="E", stage_id=uid, task_id="T", status=rng.choice([WorkflowStatus.SUCCEEDED, WorkflowStatus.TERMINAL]), original_status=rng.choice([None, WorkflowStatus.CANCELED]))
    if k == 2:
        return m.SignalStage(execution_type="PIPELINE", execution_id="E", stage_id=uid, signal_name="s", signal_data={"n": rng.randint(0, 9), "t": ["x", {"y": None}]}, persistent=rng.random() < 0.5)
    if k == 3:
        return m.RunTask(execution_type="PIPELINE", execution_id="E", stage_id=uid, task_id="T", task_type="tt")
    return m.JumpToStage(execution_type="PIPELINE", execution_id="E", stage_id=uid, target_stage_ref_id="t", jump_context={"a": 1}, jump_outputs={"b": [1, 2]})


META = {"message_id", "created_at", "attempts", "max_attempts", "last_error", "last_error_type"}


def _fields(msg) -> dict:
    return {k: (v.name if hasattr(v, "name") and hasattr(v, "value") else v) for k, v in msg.__dict__.items() if k not in META and not k.startswith("_")}


class Model:
    def __init__(self, max_attempts: int) -> None:
        self.max = max_attempts
        self.m: dict[str, dict] = {}

    def visible(self) -> set[str]:
        return {u for u, s in self.m.items() if s["place"] == "queue" and s["due"] and not s["locked"] and s["attempts"] < self.max}

    def count(self, place: str) -> int:
        return sum(1 for s in self.m.values() if s["place"] == place or (place == "queue" and s["place"] == "stuck"))


def _tables(w: World) -> tuple[dict, dict]:
    q = {}
    for rid, payload in w._exec_side("SELECT id, payload FROM queue_messages").fetchall():
        q.setdefault(json.loads(payload).get("stage_id"), []).append(rid)
    d = {}
    for did, payload in w._exec_side("SELECT id, payload FROM queue_messages_dlq").fetchall():
        d.setdefault(json.loads(payload).get("stage_id"), []).append(did)
    return q, d


def _model_case(case: dict) -> dict:
    obs: Counter = Counter()
    keys: set = set()
    violations: list[dict] = []
    sample = None
    for si in range(case["nseq"]):
        rng = random.Random(case["seed"] * 1009 + case["i"] * 31 + si)
        w = World(max_attempts=3)
        q = w.queue
        model = Model(3)
        held: dict[str, object] = {}  # uid -> message object currently held by "a worker"
        originals: dict[str, object] = {}
        oplog: list[str] = []
        acking: set[str] = set()
        cons_viol: list[dict] = []

        def on_commit(world, idx, conn):
            obs["commits_checked_for_conservation"] += 1
            tq, td = _tables(world)
            for u, s in model.m.items():
                n = len(tq.get(u, [])) + len(td.get(u, []))
                if n > 1:
                    cons_viol.append(viol("C08/message-in-two-places", f"after commit {idx} during {oplog[-1] if oplog else '?'}: {u} in queue rows {tq.get(u)} and DLQ rows {td.get(u)}"))
                if n == 0 and s["place"] != "acked" and u not in acking and not s.get("pending_push"):
                    cons_viol.append(viol("C08/message-nowhere", f"after commit {idx} during {oplog[-1] if oplog else '?'}: {u} (model: {s['place']}) is neither in the queue nor in the DLQ"))

        w.commit_listeners.append(on_commit)
        try:
            n_uid = 0
            for step in range(case["nops"]):
                op = rng.choices(["push", "push_txn", "push_delayed", "poll", "ack", "reschedule", "reschedule_delayed", "extend", "expire", "lapse", "sweep", "to_dlq", "replay", "sizes"], [10, 5, 3, 22, 10, 6, 3, 3, 6, 5, 6, 3, 5, 4])[0]
                oplog.append(op)
                obs["model_ops"] += 1
                if op in ("push", "push_txn", "push_delayed"):
                    uid = f"u{n_uid}"
                    n_uid += 1
                    msg = _mk_message(rng, uid)
                    originals[uid] = msg
                    model.m[uid] = {"place": "queue", "attempts": 0, "due": op != "push_delayed", "locked": False, "pending_push": True, "via_txn": op == "push_txn"}
                    if op == "push_txn":
                        with w.store.transaction(q) as txn:
                            txn.push_message(msg, 0)
                    else:
                        q.push(msg, timedelta(hours=1) if op == "push_delayed" else None)
                    model.m[uid]["pending_push"] = False
                elif op == "poll":
                    vis = model.visible()
                    msg = q.poll_one()
                    if msg is None:
                        if vis:
                            violations.append(viol("C08/visible-message-not-delivered", f"poll returned None although the model holds deliverable {sorted(vis)} (ops {oplog[-6:]})"))
                    else:
                        uid = msg.stage_id
                        if uid not in vis:
                            st = model.m.get(uid)
                            why = "locked by another holder" if st and st["locked"] else str(st)
                            violations.append(viol("C08/delivered-message-not-visible" + (":held-by-another-worker" if st and st["locked"] else ""), f"poll returned {uid} which the model does not consider deliverable ({why})"))
                        s = model.m[uid]
                        s["attempts"] += 1
                        s["locked"] = True
                        held[uid] = msg
                        if _fields(msg) != _fields(originals[uid]) or type(msg) is not type(originals[uid]):
                            violations.append(viol("C08/delivered-message-differs", f"{type(originals[uid]).__name__} {_fields(originals[uid])} delivered as {type(msg).__name__} {_fields(msg)}"))
                        if msg.attempts != s["attempts"]:
                            violations.append(viol("C08/attempt-count-wrong", f"{uid}: message.attempts {msg.attempts}, model {s['attempts']}"))
                elif op in ("ack", "reschedule", "reschedule_delayed", "extend") and held:
                    uid = rng.choice(sorted(held))
                    msg = held[uid]
                    s = model.m[uid]
                    if op == "ack":
                        acking.add(uid)
                        q.ack(msg)
                        if s["place"] == "queue" and getattr(msg, "message_id", None) in {str(r) for r in _tables(w)[0].get(uid, [])}:
                            pass
                        # ack deletes by row id: only if that row still exists (not replayed into a new row)
                        tq, td = _tables(w)
                        if not tq.get(uid) and not td.get(uid):
                            s["place"] = "acked"
                        acking.discard(uid)
                        held.pop(uid, None)
                    elif op == "extend":
                        ok = q.extend_lock(msg)
                        exists = str(msg.message_id) in {str(r) for r in _tables(w)[0].get(uid, [])}
                        if ok != exists:
                            violations.append(viol("C08/extend-lock-result", f"extend_lock returned {ok}, row exists {exists}"))
                        if ok:
                            s["locked"] = True
                    else:
                        delayed = op == "reschedule_delayed"
                        q.reschedule(msg, timedelta(hours=1) if delayed else timedelta(0))
                        if str(msg.message_id) in {str(r) for r in _tables(w)[0].get(uid, [])}:
                            s["locked"] = False
                            s["due"] = not delayed
                        held.pop(uid, None)
                elif op == "expire":
                    inq = [u for u, s in model.m.items() if s["place"] == "queue"]
                    if inq:
                        uid = rng.choice(sorted(inq))
                        tq, _ = _tables(w)
                        w.harness_write([("UPDATE queue_messages SET deliver_at = ?, locked_until = NULL WHERE id = ?", (PAST, tq[uid][0]))])
                        model.m[uid]["due"] = True
                        model.m[uid]["locked"] = False
                        held.pop(uid, None)
                        obs["lock_or_delay_expiries"] += 1
                elif op == "lapse":
                    # the holder died: time passes, its lock runs out (the column keeps the old, now past, timestamp)
                    lk = [u for u, s_ in model.m.items() if s_["place"] == "queue" and s_["locked"]]
                    if lk:
                        uid = rng.choice(sorted(lk))
                        tq, _ = _tables(w)
                        w.harness_write([("UPDATE queue_messages SET locked_until = ? WHERE id = ?", (PAST, tq[uid][0]))])
                        model.m[uid]["locked"] = False
                        held.pop(uid, None)
                        obs["lock_or_delay_expiries"] += 1
                        obs["locks_lapsed_with_timestamp_left"] += 1
                elif op == "sweep":
                    moved = q.check_and_move_expired()
                    # a row whose lock is live is being handled (its last attempt): it is its holder's to ack or
                    # reschedule; the sweep takes exhausted rows nobody holds (never held, rescheduled, or lock lapsed)
                    exp = [u for u, s in model.m.items() if s["place"] == "queue" and s["attempts"] >= model.max and not s["locked"]]
                    tq, td = _tables(w)
                    stuck = [u for u in exp if tq.get(u) and not td.get(u)]
                    if stuck and all(model.m[u]["via_txn"] for u in stuck):
                        violations.append(viol("C08/attempt-limit-ignored:row-carries-default-max-attempts", f"{sorted(stuck)} were inserted by AtomicTransaction.push_message or replay_dlq, reached the queue's attempt limit ({model.max}) and are no longer delivered, yet the DLQ sweep leaves them in the queue (their rows carry max_attempts=10, the default, not the queue's configured limit)"))
                        for u in stuck:
                            model.m[u]["place"] = "stuck"
                            exp.remove(u)
                            held.pop(u, None)
                        moved_expected = len(exp)
                    else:
                        moved_expected = len(exp)
                    if moved != moved_expected:
                        violations.append(viol("C08/dlq-sweep-count", f"moved {moved}, model expects {sorted(exp)}"))
                    for u in exp:
                        model.m[u]["place"] = "dlq"
                        held.pop(u, None)
                        obs["moved_to_dlq"] += 1
                elif op == "to_dlq":
                    inq = [u for u, s in model.m.items() if s["place"] in ("queue", "stuck")]
                    if inq:
                        uid = rng.choice(sorted(inq))
                        tq, _ = _tables(w)
                        q.move_to_dlq(tq[uid][0], error="verif")
                        model.m[uid]["place"] = "dlq"
                        held.pop(uid, None)
                        obs["moved_to_dlq"] += 1
                elif op == "replay":
                    ind = [u for u, s in model.m.items() if s["place"] == "dlq"]
                    if ind:
                        uid = rng.choice(sorted(ind))
                        _, td = _tables(w)
                        ok = q.replay_dlq(td[uid][0])
                        if not ok:
                            violations.append(viol("C08/replay-failed", f"{uid}"))
                        model.m[uid].update(place="queue", attempts=0, due=True, locked=False, via_txn=True)  # replay_dlq also inserts with the column default
                        obs["replayed"] += 1
                elif op == "sizes":
                    if q.size() != model.count("queue") or q.dlq_size() != model.count("dlq"):
                        violations.append(viol("C08/size-mismatch", f"queue {q.size()} vs model {model.count('queue')}; dlq {q.dlq_size()} vs {model.count('dlq')}"))
                    listed = {json.loads(d["payload"]).get("stage_id") for d in q.list_dlq(limit=1000)}
                    if listed != {u for u, s in model.m.items() if s["place"] == "dlq"}:
                        violations.append(viol("C08/list-dlq-mismatch", f"{sorted(listed)}"))
                # op-boundary conservation against the model
                tq, td = _tables(w)
                for u, s in model.m.items():
                    if s["place"] == "stuck":
                        continue
                    want = (1, 0) if s["place"] == "queue" else (0, 1) if s["place"] == "dlq" else (0, 0)
                    got = (len(tq.get(u, [])), len(td.get(u, [])))
                    if got != want:
                        violations.append(viol(f"C08/place-mismatch:{s['place']}", f"after {op}: {u} model {s['place']} but queue rows {tq.get(u)} dlq rows {td.get(u)}"))
                        s["place"] = "queue" if got[0] else "dlq" if got[1] else "acked"
                if len(violations) > 5:
                    break
            violations += cons_viol
            if any(s["place"] == "dlq" for s in model.m.values()) or obs["lock_or_delay_expiries"]:
                keys.add(f"seq:{hash(tuple(oplog)) & 0xFFFFFFF:x}")
            if sample is None:
                sample = {"ops": oplog[:60], "final_model": {u: (s["place"], s["attempts"]) for u, s in list(model.m.items())[:12]}}
        finally:
            w.close()
        obs["evaluations"] += 1
    return {"violations": _uniq(violations), "obs": dict(obs), "keys": sorted(keys), "sample": sample}


# ---------------------------------------------------------------------------
# exclusivity under interleaving
# ---------------------------------------------------------------------------


def _poller_run(nrows: int, nthreads: int, policy, seed: int) -> tuple[list[dict], dict]:
    il.prepare_env()
    w = World(max_attempts=10)
    rng = random.Random(seed)
    try:
        from stabilize.queue.messages import StartStage

        for i in range(nrows):
            w.queue.push(StartStage(execution_type="PIPELINE", execution_id="E", stage_id=f"u{i}"))
        log: list[tuple] = []
        holder: dict[str, str | None] = {}
        out: list[dict] = []
        plans = {f"P{t}": [rng.choice(["ack", "reschedule", "keep"]) for _ in range(4)] for t in range(nthreads)}

        def poller():
            me = threading.current_thread().name
            for action in plans[me]:
                try:
                    msg = w.queue.poll_one()
                except Exception as e:
                    log.append((me, "poll-error", str(e)))
                    try:
                        w.queue._get_connection().rollback()
                    except Exception:
                        pass
                    continue
                if msg is None:
                    continue
                row = msg.message_id
                log.append((me, "claim", row))
                if holder.get(row) is not None:
                    out.append(viol("C08/claimed-while-held", f"row {row} claimed by {me} while {holder[row]} still holds it (no ack / reschedule / lock lapse in between)"))
                holder[row] = me
                if action == "ack":
                    holder[row] = None
                    log.append((me, "ack", row))
                    w.queue.ack(msg)
                elif action == "reschedule":
                    holder[row] = None
                    log.append((me, "reschedule", row))
                    w.queue.reschedule(msg, timedelta(0))
                # keep: the lock stays (60 s), nobody else may claim it

        sched = il.Scheduler(policy)
        w.commit_listeners.append(lambda world, idx, conn: sched.commit_event(conn))
        sched.run({f"P{t}": poller for t in range(nthreads)})
        info = {"trace_hash": sched.trace_hash(), "switches": sched.switches, "failed": sched.failed, "lock_blocks": sched.lock_blocks, "steps": dict(sched.steps), "log": log}
        for name, e in sched.errors.items():
            out.append(viol("C08/poller-error", f"{name}: {type(e).__name__}: {e}"))
        # conservation at the end
        rows = w._exec_side("SELECT COUNT(*) FROM queue_messages").fetchone()[0]
        acked = sum(1 for l in log if l[1] == "ack")
        if rows + acked != nrows:
            out.append(viol("C08/pollers-lost-or-duplicated-message", f"{rows} rows left + {acked} acked != {nrows} pushed"))
        return out, info
    finally:
        w.close()


def _pollers2(case: dict) -> dict:
    obs: Counter = Counter()
    keys: set = set()
    violations = []
    rng = random.Random(case["seed"] * 83 + case["nrows"])
    _, solo = _poller_run(case["nrows"], 1, il.Segments([("P0", 10**6)]), 1)
    n = solo["steps"].get("P0", 20) + 4
    scheds = il.bound_schedules(n, n, 2, names=("P0", "P1"), sample=case["sample"], rng=rng)
    scheds = [s for i, s in enumerate(scheds) if i % case["chunks"] == case["chunk"]]
    sample = None
    for i, sc in enumerate(scheds):
        v, info = _poller_run(case["nrows"], 2, il.Segments(sc), i % 7)
        obs["evaluations"] += 1
        if info["failed"]:
            obs["scheduler_watchdog"] += 1
            continue
        if info["switches"]:
            obs["poller_schedules_with_switch"] += 1
            keys.add(f"p2:{case['nrows']}:{info['trace_hash']}")
        for x in v:
            x.update(schedule=sc, nrows=case["nrows"])
        violations += v
        if sample is None and info["switches"] >= 2:
            sample = {"schedule": sc, "history": info["log"]}
    return {"violations": _uniq(violations), "obs": dict(obs), "keys": sorted(keys), "sample": sample}


def _replay_run(policy, other: str) -> tuple[list[dict], dict]:
    """One dead-lettered message; two operators act on the DLQ entry at the same time: replay x replay, or
    replay x clear_dlq.  Whatever the interleaving, the message ends up in exactly one place exactly once."""
    il.prepare_env()
    w = World(max_attempts=3)
    try:
        from stabilize.queue.messages import StartStage

        w.queue.push(StartStage(execution_type="PIPELINE", execution_id="E", stage_id="dead"))
        msg = w.queue.poll_one()
        w.queue.move_to_dlq(msg.message_id, "verif: dead-lettered for the replay race")
        dlq = w._exec_side("SELECT id FROM queue_messages_dlq").fetchall()
        if len(dlq) != 1:
            return [viol("C08/harness", f"expected one DLQ entry, found {len(dlq)}")], {"failed": "setup", "switches": 0, "trace_hash": ""}
        dlq_id = dlq[0][0]
        results: dict[str, Any] = {}

        def replayer():
            me = threading.current_thread().name
            try:
                results[me] = w.queue.replay_dlq(dlq_id)
            except Exception as e:
                results[me] = f"error:{type(e).__name__}:{e}"
                try:
                    w.queue._get_connection().rollback()
                except Exception:
                    pass

        def clearer():
            me = threading.current_thread().name
            try:
                results[me] = ("cleared", w.queue.clear_dlq())
            except Exception as e:
                results[me] = f"error:{type(e).__name__}:{e}"
                try:
                    w.queue._get_connection().rollback()
                except Exception:
                    pass

        sched = il.Scheduler(policy)
        w.commit_listeners.append(lambda world, idx, conn: sched.commit_event(conn))
        sched.run({"P0": replayer, "P1": replayer if other == "replay" else clearer})
        info = {"trace_hash": sched.trace_hash(), "switches": sched.switches, "failed": sched.failed, "steps": dict(sched.steps), "results": dict(results)}
        out: list[dict] = []
        for name, e in sched.errors.items():
            out.append(viol("C08/poller-error", f"{name}: {type(e).__name__}: {e}"))
        rows = w._exec_side("SELECT COUNT(*) FROM queue_messages").fetchone()[0]
        left = w._exec_side("SELECT COUNT(*) FROM queue_messages_dlq").fetchone()[0]
        trues = sum(1 for r in results.values() if r is True)
        cleared = sum(r[1] for r in results.values() if isinstance(r, tuple))
        # the message is in at most one place, once; it is in the queue exactly as often as a replay reported
        # success; it may be gone only if the other operator cleared the DLQ (clear_dlq's returned COUNT is
        # informational - it may include an entry a concurrent replay took - and is not part of the invariant)
        gone_ok = other == "clear" and cleared >= 1
        if rows + left > 1 or rows != trues or (rows + left == 0 and not gone_ok):
            out.append(viol("C08/dlq-entry-lost-or-duplicated", f"one dead-lettered message, concurrent replay x {other}: {rows} queue rows, {left} DLQ rows, {cleared} reported cleared, replay results {results}"))
        return out, info
    finally:
        w.close()


def _replayers(case: dict) -> dict:
    obs: Counter = Counter()
    keys: set = set()
    violations = []
    rng = random.Random(case["seed"] * 101)
    _, solo = _replay_run(il.Segments([("P0", 10**6), ("P1", 10**6)]), case["other"])
    n = max(solo.get("steps", {}).get("P0", 8), solo.get("steps", {}).get("P1", 8)) + 2
    for sc in il.bound_schedules(n, n, 2, names=("P0", "P1"), sample=case["sample"], rng=rng):
        v, info = _replay_run(il.Segments(sc), case["other"])
        obs["evaluations"] += 1
        if info["failed"]:
            obs["scheduler_watchdog"] += 1
            continue
        if info["switches"]:
            obs["dlq_operator_schedules_with_switch"] += 1
            keys.add(f"replay:{case['other']}:{info['trace_hash']}")
        for x in v:
            x.update(schedule=sc, other=case["other"])
        violations += v
    return {"violations": _uniq(violations), "obs": dict(obs), "keys": sorted(keys)}


def _sweeper_run(policy, seed: int, two_sweepers: bool = False) -> tuple[list[dict], dict]:
    """The dead-letter sweep (check_and_move_expired) racing pollers: one message is already out of attempts, a
    second one is on its last attempt and gets claimed (which uses the attempt up) while the sweep is under way, a
    third is fresh.  Whatever the interleaving, every message is in exactly one place and only messages that were
    out of attempts are dead-lettered, each once."""
    il.prepare_env()
    maxa = 3
    w = World(max_attempts=maxa)
    rng = random.Random(seed)
    try:
        from stabilize.queue.messages import StartStage

        for i in range(3):
            w.queue.push(StartStage(execution_type="PIPELINE", execution_id="E", stage_id=f"u{i}"))
        ids = [r["id"] for r in w.rows()]
        w.harness_write([("UPDATE queue_messages SET attempts = ? WHERE id = ?", (maxa, ids[0])), ("UPDATE queue_messages SET attempts = ? WHERE id = ?", (maxa - 1, ids[1]))])
        log: list[tuple] = []
        out: list[dict] = []
        plan = [rng.choice(["ack", "reschedule", "keep"]) for _ in range(3)]
        moved: list[int] = []

        def poller():
            me = threading.current_thread().name
            for action in plan:
                try:
                    msg = w.queue.poll_one()
                except Exception as e:
                    log.append((me, "poll-error", str(e)))
                    try:
                        w.queue._get_connection().rollback()
                    except Exception:
                        pass
                    continue
                if msg is None:
                    continue
                log.append((me, "claim", msg.message_id, action))
                if action == "ack":
                    w.queue.ack(msg)
                elif action == "reschedule":
                    w.queue.reschedule(msg, timedelta(0))

        def sweeper():
            me = threading.current_thread().name
            for _ in range(2):
                try:
                    n = w.queue.check_and_move_expired()
                    moved.append(n)
                    log.append((me, "sweep", n))
                except Exception as e:
                    log.append((me, "sweep-error", f"{type(e).__name__}: {e}"))
                    try:
                        w.queue._get_connection().rollback()
                    except Exception:
                        pass

        sched = il.Scheduler(policy)
        w.commit_listeners.append(lambda world, idx, conn: sched.commit_event(conn))
        bodies = {"S0": sweeper, "P0": poller}
        if two_sweepers:
            bodies["S1"] = sweeper
        sched.run(bodies)
        info = {"trace_hash": sched.trace_hash(), "switches": sched.switches, "failed": sched.failed, "steps": dict(sched.steps), "log": log}
        for name, e in sched.errors.items():
            out.append(viol("C08/sweeper-error", f"{name}: {type(e).__name__}: {e}"))
        q = {str(r[0]): r[1] for r in w._exec_side("SELECT id, attempts FROM queue_messages").fetchall()}
        d = [str(r[0]) for r in w._exec_side("SELECT original_id FROM queue_messages_dlq").fetchall()]
        acked = {str(l[2]) for l in log if l[1] == "claim" and l[3] == "ack"}
        for rid in map(str, ids):
            places = (rid in q) + d.count(rid) + (rid in acked)
            if places != 1:
                out.append(viol("C08/sweep-vs-poller:message-in-%d-places" % places, f"row {rid}: queue={rid in q} dlq={d.count(rid)} acked={rid in acked}; history {log}"))
        return out, info
    finally:
        w.close()


def _sweepers(case: dict) -> dict:
    obs: Counter = Counter()
    keys: set = set()
    violations = []
    rng = random.Random(case["seed"] * 131 + 5)
    _, solo = _sweeper_run(il.Segments([("S0", 10**6), ("P0", 10**6)]), 1)
    na, nb = solo["steps"].get("S0", 12) + 2, solo["steps"].get("P0", 20) + 2
    scheds = il.bound_schedules(na, nb, 2, names=("S0", "P0"), sample=case["sample"], rng=rng)
    for i, sc in enumerate(scheds):
        v, info = _sweeper_run(il.Segments(sc), i % 9)
        obs["evaluations"] += 1
        if info["failed"]:
            obs["scheduler_watchdog"] += 1
            continue
        if info["switches"]:
            obs["sweep_schedules_with_switch"] += 1
            keys.add(f"sweep:{info['trace_hash']}")
        for x in v:
            x.update(schedule=sc)
        violations += v
    for j in range(case["sample"] // 4):
        sd = rng.randrange(1 << 30)
        v, info = _sweeper_run(il.RandomPolicy(sd, 0.4), sd, two_sweepers=True)
        obs["evaluations"] += 1
        if info["failed"]:
            obs["scheduler_watchdog"] += 1
            continue
        if info["switches"]:
            obs["sweep_schedules_with_switch"] += 1
            keys.add(f"sweep2:{info['trace_hash']}")
        for x in v:
            x.update(policy_seed=sd, two_sweepers=True)
        violations += v
    return {"violations": _uniq(violations), "obs": dict(obs), "keys": sorted(keys)}


def _pollers3(case: dict) -> dict:
    obs: Counter = Counter()
    keys: set = set()
    violations = []
    rng = random.Random(case["seed"] * 89 + case["i"])
    for _ in range(case["runs"]):
        s = rng.randrange(1 << 30)
        v, info = _poller_run(rng.randint(1, 4), 3, il.RandomPolicy(s, 0.4), s)
        obs["evaluations"] += 1
        if info["failed"]:
            obs["scheduler_watchdog"] += 1
            continue
        if info["switches"]:
            obs["poller_schedules_with_switch"] += 1
            keys.add(f"p3:{info['trace_hash']}")
        for x in v:
            x.update(policy_seed=s)
        violations += v
    return {"violations": _uniq(violations), "obs": dict(obs), "keys": sorted(keys)}


def _poison(case: dict) -> dict:
    """A message whose handler always fails, through the real QueueProcessor error path."""
    from stabilize.queue.messages import SignalStage

    obs: Counter = Counter({"evaluations": 1})
    violations = []
    rng = random.Random(case["seed"] * 97 + case["i"])
    maxa = rng.choice([2, 3, 5])
    w = World(max_attempts=maxa)
    try:
        calls = [0]

        class Boom(Exception):
            pass

        h = w.processor._handlers[SignalStage]

        def poison(message):
            calls[0] += 1
            raise Boom("poison")

        h.handle = poison  # type: ignore[method-assign]
        orig = SignalStage(execution_type="PIPELINE", execution_id="E", stage_id="poison", signal_name="x", signal_data={"k": [1, {"z": None}]}, persistent=True)
        w.queue.push(orig)
        for _ in range(maxa * 3 + 5):
            rows = w.rows()
            if not rows:
                break
            r = rows[0]
            if r["attempts"] >= r["max_attempts"]:
                w.processor._check_dlq()
                continue
            w.expose(r["id"])
            try:
                w.processor.process_one()
            except Boom:
                pass
        obs["poison_handler_calls"] = calls[0]
        dlq = w.dlq_rows()
        if w.rows() or len(dlq) != 1:
            violations.append(viol("C08/poison-message-not-in-dlq", f"after {calls[0]} failing deliveries (limit {maxa}): queue {len(w.rows())} rows, DLQ {len(dlq)} rows"))
        if calls[0] != maxa:
            violations.append(viol("C08/poison-delivery-count", f"handler called {calls[0]} times, limit {maxa}"))
        if dlq:
            w.queue.replay_dlq(dlq[0]["id"])
            rows = w.rows()
            w.expose(rows[0]["id"])
            msg = w.queue.poll_one()
            if msg is None or _fields(msg) != _fields(orig) or type(msg) is not SignalStage:
                violations.append(viol("C08/replayed-message-differs", f"{_fields(orig)} vs {_fields(msg) if msg else None}"))
            obs["replayed"] = 1
    finally:
        w.close()
    return {"violations": violations, "obs": dict(obs), "keys": [f"poison:{maxa}"]}


def _uniq(vs: list[dict]) -> list[dict]:
    seen = set()
    out = []
    for x in vs:
        if x["sig"] not in seen:
            seen.add(x["sig"])
            out.append(x)
    return out


def run_case(case: dict) -> dict:
    k = case["kind"]
    if k == "model":
        return _model_case(case)
    if k == "pollers2":
        return _pollers2(case)
    if k == "pollers3":
        return _pollers3(case)
    if k == "replayers":
        return _replayers(case)
    if k == "sweepers":
        return _sweepers(case)
    return _poison(case)


_ = FAR

"""C02 - redelivery and reordering never change the result or repeat finished work."""

from __future__ import annotations

import random
from collections import Counter

from .. import oracles, specs
from ..framework import viol
from ..runs import delivery_run, summarize

ID = "C02"
LEVEL = "exploration"
RULE = (
    "case = (workflow spec from the confluent family or a random confluent DAG) x (delivery schedule: seeded random / LIFO "
    "order over the rows deliverable at the current virtual time, ack withheld with p in {0,.15,.3,.4} and the message "
    "redelivered later (<=2 times), one message of a chosen type held back k steps, duplicate StartStage injected); "
    "every case is compared with its own FIFO exactly-once reference run. Plus exhaustive branching: from cut points "
    "of the FIFO run of 12 small workflows, EVERY choice (which deliverable row next x ack / withhold) to depth 3 (quick) "
    "/ 6 (thorough), database copied at each choice point, states pruned on a canonical hash, FIFO drain below the bound. "
    "Plus redelivery to a different worker: 2-4 worker threads interleaved at SQL-statement granularity, messages forgotten "
    "once (no ack, lock lapses) and picked up by whichever thread polls next - in half of the runs locks also lapse WHILE the first worker is still "
    "handling the message (a further thread clears locks at random points): an execution may then repeat the step in flight but "
    "must never begin after an earlier execution's result was recorded -, compared with the FIFO reference. "
    "Non-trivial = the delivered sequence of "
    "(message type, target) differs from the reference's; distinct = by hash of that sequence."
)
ASSUMPTIONS = [
    "SQLite backend, one database file for store+queue",
    "virtual time: delayed rows are delivered only when no undelayed row is pending (no wait budget is exhausted artificially)",
    "duplicates arise only the way the queue produces them (ack lost / lock lapsed), never by cloning rows",
]
MIN_OBS = {"redeliveries": {"quick": 50, "thorough": 500}, "reordered_runs": {"quick": 50, "thorough": 500}, "interleaved_runs": {"quick": 60, "thorough": 800}, "second_worker_got_the_row": {"quick": 50, "thorough": 100}}
TIMEOUT = {"quick": 600, "thorough": 3000}

HOLD_TYPES = ["StartStage", "CompleteStage", "CompleteTask", "RunTask", "StartTask", "JumpToStage", "CompleteWorkflow"]


def _spec_for(i: int, seed: int) -> dict:
    fam = specs.CONFLUENT_FAMILY
    if i < len(fam):
        return fam[i]()
    rng = random.Random(seed * 7919 + i)
    for _ in range(50):
        sp = specs.random_dag(rng, max_stages=6)
        if sp["confluent"]:
            sp["name"] = f"rand{seed}_{i}"
            return sp
    return specs.diamond()


def gen_cases(tier: str, seed: int) -> list[dict]:
    nspecs = 40 if tier == "quick" else 150
    nsched = 25 if tier == "quick" else 120
    cases = []
    for i in range(nspecs):
        cases.append({"spec_i": i, "seed": seed, "nsched": nsched})
    depth = 3 if tier == "quick" else 6
    for i in range(13):
        for cut in ((0, 6) if tier == "quick" else (0, 4, 8, 12)) + ((10, 14) if i == 12 else ()):
            cases.append({"kind": "exhaustive", "spec_i": i, "cut": cut, "depth": depth, "seed": seed})
    for i in range(80 if tier == "quick" else 1000):
        cases.append({"kind": "race", "spec_i": i, "seed": seed})
    for sp in range(6):
        for nth in ((0, 1) if tier == "quick" else (0, 1, 2, 3)):
            cases.append({"kind": "relapse", "spec": sp, "nth": nth, "seed": seed})
    stride = 2
    for sp in range(len(RELAPSE_ANY_SPECS)):
        for phase in range(stride):
            cases.append({"kind": "relapse_any", "spec": sp, "seed": seed, "stride": stride, "phase": phase, "points": 6 if tier == "quick" else 40})
    return cases


def _schedules(case: dict, ref_types: list[str]) -> list[dict]:
    rng = random.Random(case["seed"] * 1000003 + case["spec_i"])
    out = []
    n = case["nsched"]
    for j in range(n):
        kind = j % 5
        s: dict = {"seed": rng.randrange(1 << 30)}
        if kind == 0:
            s.update(order="random", noack_p=0.0)
        elif kind == 1:
            s.update(order="random", noack_p=rng.choice([0.15, 0.3, 0.4]))
        elif kind == 2:
            s.update(order="lifo", noack_p=rng.choice([0.0, 0.2]))
        elif kind == 3:
            ty = rng.choice([t for t in HOLD_TYPES if t in ref_types] or ["StartStage"])
            s.update(order=rng.choice(["fifo", "random"]), noack_p=0.1, hold={"type": ty, "nth": rng.randrange(0, max(1, ref_types.count(ty))), "steps": rng.choice([3, 8, 20, 60])})
        else:
            s.update(order="random", noack_p=0.2, dup=True)
        out.append(s)
    return out


def _seqkey(run) -> tuple:
    return tuple((h.get("type"), h.get("ack")) for h in run.handled)


def compare_with_reference(spec: dict, ref, run, prop: str = "C02", data: bool = True) -> list[dict]:
    out = []
    if run.budget_exhausted or not run.quiescent:
        return [viol(f"{prop}/INCONCLUSIVE-budget", "step budget exhausted before quiescence")]
    a, b = summarize(ref), summarize(run)
    if a["wf"] != b["wf"] or a["stages"] != b["stages"]:
        out.append(viol(f"{prop}/outcome-differs", f"reference {a['wf']} {a['stages']} vs {b['wf']} {b['stages']}"))
    rc, tc = oracles.exec_counts(ref.ledger), oracles.exec_counts(run.ledger)
    if spec.get("loose_iter_labels"):
        # iteration labels are per-stage re-arm counts; where a schedule legitimately changes whether a stage is
        # re-armed (see the spec), executions are compared per (stage, task) over all iterations, data not at all
        def fold(c):
            out_: Counter = Counter()
            for (r_, t_, _i), n_ in c.items():
                out_[(r_, t_, "*")] += n_
            return out_

        rc, tc = fold(rc), fold(tc)
        data = False
    if rc != tc:
        diff = {str(k): (rc.get(k, 0), tc.get(k, 0)) for k in set(rc) | set(tc) if rc.get(k, 0) != tc.get(k, 0)}
        more = any(v[1] > v[0] for v in diff.values())
        out.append(viol(f"{prop}/execution-count-differs:{'extra' if more else 'missing'}", f"(ref,task,iter)->(reference,run): {diff}"))
    if data:
        early = specs.early_join_refs(spec)
        okeys = oracles.output_keys(spec)

        def views(ledger):
            v = {}
            for r in ledger:
                if r["ref"] in early or "<" in r["ref"]:
                    continue
                keys = set()
                for anc in specs.ancestors(spec, r["ref"]):
                    keys |= okeys.get(anc, set())
                v.setdefault((r["ref"], r["task"], r["iter"]), []).append(oracles.anc_view(r["ctx"], keys))
            return v

        va, vb = views(ref.ledger), views(run.ledger)
        for k in va:
            if k in vb and va[k] != vb[k] and len(va[k]) == len(vb[k]):
                out.append(viol(f"{prop}/upstream-data-differs", f"{k}: reference saw {va[k]} run saw {vb[k]}"))
                break
    return out


def effect_oracles(spec: dict, run, prop: str = "C02") -> tuple[list[dict], Counter]:
    """(b) at most one start per stage per iteration; (c) no execution after the
    task's completion is durable; (d) marked messages are not handled again."""
    out = []
    obs: Counter = Counter()
    for sid, per_iter in oracles.starts_per_iteration(run.audit).items():
        for it, n in enumerate(per_iter):
            if n > 1:
                out.append(viol(f"{prop}/stage-started-twice", f"stage {sid} iteration {it}: {n} NOT_STARTED->RUNNING rows"))
    tl = oracles.Timeline(run.audit)
    tasks_by_stage: dict[tuple, str] = {}
    for eid, m in tl.meta.items():
        if m["kind"] == "task":
            tasks_by_stage[(m["owner"], m["name"])] = eid
    for r in run.ledger:
        tid = tasks_by_stage.get((r["stage_id"], f"t{r['task']}"))
        if tid is None:
            continue
        stt = tl.at(tid, r["seq"])
        obs["ledger_checked"] += 1
        if stt in oracles.COMPLETE:
            out.append(viol(f"{prop}/executed-after-completion", f"{r['ref']}.t{r['task']} executed (ord {r['ord']}) while durably {stt}"))
    # (d) dedup
    mark_seq = {}
    for a in run.audit:
        if a["kind"] == "mark" and a["op"] == "ins":
            mark_seq.setdefault(a["a"], a["seq"])
    groups = oracles.Groups(run.commits)
    for h in run.handled:
        mid = h.get("polled")
        if mid is None:
            continue
        c0 = h["commits"][0]
        claim_seq = groups.maxes[c0] if c0 < len(groups.maxes) else 1 << 60
        if mid in mark_seq and mark_seq[mid] <= claim_seq:
            obs["marked_redeliveries"] += 1
            if h.get("handled"):
                out.append(viol(f"{prop}/handled-although-marked", f"{h['type']} row {mid} was handled again after its processed mark was durable"))
    return out, obs


def _exhaustive(case: dict) -> dict:
    """Every delivery choice (which deliverable row next, ack or withhold) to a depth bound
    from a cut point of the FIFO run; below the bound the run is drained FIFO.  Database
    files are copied at each choice point; states are pruned on a canonical hash (statuses +
    multiset of pending message types/targets + withheld set)."""
    import hashlib
    import json
    import os
    import shutil

    from .. import env
    from ..world import World

    small = [specs.chain(2), specs.diamond(), specs.first_of(2), specs.self_loop(1), specs.jump_loop(1, 2), specs.transient(1, True), specs.polling(1), specs.failed_continue(), specs.or_split(), specs.quorum(3, 2), specs.synthetic(), specs.multitask(), specs.stopped_branch()]
    spec = small[case["spec_i"] % len(small)]
    ref = delivery_run(spec, order="fifo")
    obs: Counter = Counter()
    keys: set = set()
    violations: list[dict] = []
    depth0 = case["depth"]
    budget = ref.steps * 5 + 80
    tmpd = os.path.join(env.scratch_dir(), f"exh-{os.getpid()}-{case['spec_i']}-{case['cut']}")
    os.makedirs(tmpd, exist_ok=True)
    counter = [0]
    seen: set = set()

    def state_hash(w: World, rows: list[dict]) -> str:
        st = w.snapshot_state()
        pend = sorted((r["type"], json.loads(r["payload"]).get("stage_id", ""), json.loads(r["payload"]).get("task_id", ""), r["id"] in w.withheld, r["attempts"] > 0) for r in rows)
        blob = json.dumps([st["wf"], sorted((k, v["status"], tuple(map(tuple, v["tasks"]))) for k, v in st["stages"].items()), pend, len(w.ledger)], sort_keys=True, default=str)
        return hashlib.sha1(blob.encode()).hexdigest()

    def leaf(w: World, trail: list) -> None:
        run = delivery_run({}, world=w, resubmit=False, max_steps=budget)
        obs["evaluations"] += 1
        obs["leaf_runs"] += 1
        vs = compare_with_reference(spec, ref, run)
        if any("INCONCLUSIVE" in x["sig"] for x in vs):
            obs["budget_exhausted"] += 1
            return
        v2, o2 = effect_oracles(spec, run)
        obs.update(o2)
        for x in oracles.attribute(vs + v2, run, "C02"):
            x.update(spec=spec["name"], exhaustive_trail=trail)
            violations.append(x)
        keys.add(f"exh:{spec['name']}:{case['cut']}:{hash(tuple(trail)) & 0xFFFFFFF:x}")

    def explore(path: str, ledger: list, withheld: dict, depth: int, trail: list) -> None:
        w = World(path=path, ledger=[dict(r) for r in ledger], base_time=os.path.getmtime(path))
        w.owns_file = False  # inner nodes are copied from; the whole directory is removed at the end
        w.withheld = dict(withheld)
        w.wf_id = w._exec_side("SELECT id FROM pipeline_executions LIMIT 1").fetchone()[0]
        try:
            rows = w.rows()
            if not rows or depth == 0 or len(violations) > 3:
                w.owns_file = True
                leaf(w, trail)
                w = None
                return
            h = state_hash(w, rows)
            if h in seen:
                obs["pruned_states"] += 1
                return
            seen.add(h)
            obs["choice_points"] += 1
            ready = w.eligible(rows)
            options = []
            for r in ready:
                options.append((r["id"], r["type"], True))
                if r["attempts"] < 2 and r["id"] not in w.withheld:
                    options.append((r["id"], r["type"], False))
            base_ledger = list(w.ledger)
            base_withheld = dict(w.withheld)
            w.close()
            w = None
            for rid, ty, ack in options:
                counter[0] += 1
                child = os.path.join(tmpd, f"n{counter[0]}.db")
                src_time = os.path.getmtime(path)
                shutil.copyfile(path, child)
                cw = World(path=child, ledger=[dict(r) for r in base_ledger], base_time=src_time)
                cw.owns_file = True
                cw.withheld = dict(base_withheld)
                cw.wf_id = cw._exec_side("SELECT id FROM pipeline_executions LIMIT 1").fetchone()[0]
                cw.deliver(rid, ack=ack)
                led, wh = list(cw.ledger), dict(cw.withheld)
                cw.owns_file = False
                cw.close()
                explore(child, led, wh, depth - 1, trail + [f"{ty}{'' if ack else '!'}"])
        finally:
            if w is not None:
                w.close()

    # cut point: deliver `cut` messages FIFO first
    start = World()
    try:
        start.submit(spec)
        for _ in range(case["cut"]):
            rows = start.rows()
            if not rows:
                break
            start.deliver(start.eligible(rows)[0]["id"])
        root = os.path.join(tmpd, "root.db")
        start.copy_db(root)
        led0 = list(start.ledger)
    finally:
        start.close()
    try:
        explore(root, led0, {}, depth0, [])
    finally:
        shutil.rmtree(tmpd, ignore_errors=True)
    seen_s = set()
    uniq = []
    for x in violations:
        if x["sig"] not in seen_s:
            seen_s.add(x["sig"])
            uniq.append(x)
    obs["redeliveries"] += obs.get("marked_redeliveries", 0)
    obs["reordered_runs"] += obs.get("leaf_runs", 0)
    return {"violations": uniq, "obs": dict(obs), "keys": sorted(keys), "sample": {"spec": spec["name"], "cut": case["cut"], "depth": depth0, "choice_points": obs.get("choice_points", 0), "leaves": obs.get("leaf_runs", 0), "pruned": obs.get("pruned_states", 0)}}


def _race(case: dict) -> dict:
    """Redelivery 'to a different worker': 2-4 worker threads interleaved at SQL-statement granularity,
    each message forgotten once with probability p (no ack, the lock lapses at once) so it comes back to
    whichever thread polls next while the others keep working; compared with the FIFO exactly-once reference."""
    from .. import interleave as il

    spec = _spec_for(case["spec_i"] % 60, case["seed"])
    rng = random.Random(case["seed"] * 52361 + case["spec_i"])
    ref = delivery_run(spec, order="fifo")
    forgotten: set = set()
    p = rng.choice([0.2, 0.5, 1.0])

    def ack_fn(w, msg):
        if msg.message_id in forgotten or rng.random() > p:
            return True
        forgotten.add(msg.message_id)
        return False

    pol = il.RandomPolicy(rng.randrange(1 << 30), switch_p=rng.choice([0.1, 0.3, 0.5])) if case["spec_i"] % 3 else il.PCT(rng.randrange(1 << 30), d=rng.choice([2, 3, 5]), horizon=rng.choice([400, 1500]))
    records: list = []
    lapse_in_flight = case["spec_i"] % 2 == 1
    extra = {}
    holder: dict = {}
    lapses = [0]
    if lapse_in_flight:
        # the visibility lock of a message runs out WHILE its first worker is still handling it (slow handler,
        # short lock): the row becomes deliverable again and another thread may pick it up at any point of the
        # first handling - also between its result commit and its processed mark
        def mk(w, stop):
            def body() -> None:
                sched = holder["s"]
                for _ in range(rng.randint(3, 12)):
                    il.idle_points(sched, rng.randrange(5, 120), stop)
                    if stop[0]:
                        return
                    try:
                        c = w.queue._get_connection()
                        cur = c.execute("UPDATE queue_messages SET locked_until = NULL WHERE locked_until IS NOT NULL")
                        c.commit()
                        lapses[0] += cur.rowcount
                    except Exception:
                        try:
                            w.queue._get_connection().rollback()
                        except Exception:
                            pass

            return body

        extra["L"] = mk

    def with_sched(sched, w):
        holder["s"] = sched
        return None

    run, info = il.run_workers(spec, rng.choice([2, 3, 4]), pol, ack_fn=ack_fn, records=records, max_msgs=900, watchdog=120.0, extra_bodies=extra, with_sched=with_sched)
    obs: Counter = Counter({"evaluations": 1})
    if run is None:
        obs["scheduler_failed"] += 1
        return {"violations": [], "obs": dict(obs), "keys": [], "inconclusive": info.get("failed")}
    obs["interleaved_runs"] += 1
    obs["redeliveries"] += len(forgotten)
    obs["reordered_runs"] += 1
    obs["locks_lapsed_in_flight"] += lapses[0]
    v = compare_with_reference(spec, ref, run, data=False)
    if lapse_in_flight:
        # a second worker that picks the message up while the first is still executing the body repeats the step
        # in flight - legitimate; what must never happen is an execution that BEGINS after the result of an earlier
        # execution of the same task (same iteration) was recorded (= its CompleteTask was pushed)
        v = [x for x in v if "execution-count-differs:extra" not in x["sig"]]
        tl = oracles.Timeline(run.audit)
        task_of = {(m["owner"], m["name"]): eid for eid, m in tl.meta.items() if m["kind"] == "task"}
        pushed: dict[str, list[int]] = {}
        for a in run.audit:
            if a["kind"] == "queue" and a["op"] == "ins" and a["c"] == "CompleteTask":
                try:
                    pushed.setdefault(__import__("json").loads(a["d"]).get("task_id"), []).append(a["seq"])
                except Exception:
                    pass
        rearm: dict[str, list[int]] = {}
        for a in run.audit:
            if a["kind"] == "status" and a["op"] == "task" and a["d"] == "NOT_STARTED":
                rearm.setdefault(a["a"], []).append(a["seq"])
        for r in run.ledger:
            tid = task_of.get((r["stage_id"], f"t{r['task']}"))
            if tid is None:
                continue
            lo = max([q for q in rearm.get(tid, []) if q <= r["seq"]] or [0])  # start of this task's current iteration
            rec = [q for q in pushed.get(tid, []) if lo < q <= r["seq"]]
            obs["executions_checked_against_recorded_results"] += 1
            if not rec:
                continue
            # the delivery this execution belongs to (task bodies run on pool threads: tie by task id and time);
            # a handler that was polled BEFORE the result was recorded is still the step in flight
            # (only deliveries that entered the handler can have executed anything: one that was polled later and
            # acknowledged as a duplicate must not be taken for the executing one)
            mine = sorted((d for d in records if d["type"] == "RunTask" and d.get("task_id") == tid and d["post_poll_seq"] <= r["seq"] and d.get("handled", True)), key=lambda d: d["post_poll_seq"])
            if mine and mine[-1]["pre_seq"] >= rec[0]:
                v.append(viol("C02/executed-again-after-result-recorded", f"{r['ref']}.t{r['task']}@{r['iter']} executed by a RunTask delivery polled at seq >= {mine[-1]['pre_seq']}, after the result of an earlier execution had been recorded (CompleteTask pushed at seq {rec[0]})"))
                break
            obs["repeats_of_the_step_in_flight"] += 1
    v2, o = effect_oracles(spec, run)
    obs.update({k: n for k, n in o.items() if k != "marked_redeliveries"})
    v = oracles.attribute(v + [x for x in v2 if "handled-although-marked" not in x["sig"]], run, "C02")
    wit2 = oracles.double_plan_witness(run) if v else None
    if wit2:
        v = [viol("C02/stage-planned-twice:zombie-replan-while-first-claimer-still-planning", f"{wit2}; symptoms {[x['sig'] for x in v][:4]}")]
    wit = oracles.lost_plan_witness(run) if v and not wit2 else None
    if wit:
        # known mechanism (DESIGN 10.3 row 10), seen from the outcome side
        v = [viol("C02/start-lost:plan-commit-lost-optimistic-lock-and-error-swallowed", f"{wit}; symptoms {[x['sig'] for x in v][:4]}")]
    seen = set()
    uniq = []
    for x in v:
        if x["sig"] not in seen:
            seen.add(x["sig"])
            x.update(spec=spec["name"], interleaved=True, trace_hash=info["trace_hash"])
            uniq.append(x)
    return {"violations": uniq, "obs": dict(obs), "keys": [f"race:{spec['name']}:{info['trace_hash'][:6]}"]}


def _relapse(case: dict) -> dict:
    """One RunTask is being handled by worker W0; at EVERY statement boundary of that handling (also after its
    result commit, before the processor's own mark / ack) the row's lock lapses and a second worker polls it.
    A second execution is the step in flight as long as that poll happened before W0 recorded the result; polled
    after it, the delivery must be recognised as done."""
    import json as _json
    import os

    from .. import interleave as il
    from ..world import World

    raising = {"name": "raising", "confluent": True, "stages": [specs.st("a", [], [{"kind": "raise"}], ctx={"continuePipelineOnFailure": True}), specs.st("b", ["a"])]}
    timeouty = {"name": "raising2", "confluent": True, "stages": [specs.st("a"), specs.st("b", ["a"], [dict(specs.OK), {"kind": "raise"}]), specs.st("c", ["b"])]}
    spec = [specs.chain(2), specs.multitask(), specs.polling(1), specs.diamond(), raising, timeouty][case["spec"]]
    w = World()
    cut = None
    try:
        w.submit(spec)
        seen = 0
        for _ in range(200):
            rows = w.rows()
            if not rows:
                break
            ready = w.eligible(rows)
            if ready and ready[0]["type"] == "RunTask":
                if seen == case["nth"]:
                    path = os.path.join(il.env.scratch_dir(), f"cut-{os.getpid()}-{random.randrange(1 << 40)}.db")
                    w.store._get_connection().commit()
                    w.copy_db(path)
                    cut = (path, ready[0]["id"], _json.loads(ready[0]["payload"]).get("task_id"))
                    break
                seen += 1
            w.deliver(ready[0]["id"])
    finally:
        w.close()
    obs: Counter = Counter()
    keys: set = set()
    violations = []
    if cut is None:
        return {"violations": [], "obs": {"cut_point_not_reached": 1}, "keys": []}
    db, row, task_id = cut
    FAR = "2999-01-01T00:00:00+00:00"
    try:
        na = il.solo_length(db, row)
        for s1 in range(0, na + 1):
            polled: dict = {}

            def mk(world, _polled=polled):
                def body() -> None:
                    c = world.queue._get_connection()
                    try:
                        c.execute("UPDATE queue_messages SET locked_until = NULL WHERE id = ?", (row,))
                        c.execute("UPDATE queue_messages SET locked_until = ? WHERE id != ? AND locked_until IS NULL", (FAR, row))
                        c.commit()
                        _polled["pre_seq"] = world.max_seq()
                        msg = world.queue.poll_one()
                        _polled["got"] = msg is not None
                        if msg is not None:
                            il.worker_body(world, msg)()
                    finally:
                        try:
                            c.execute("UPDATE queue_messages SET locked_until = NULL WHERE locked_until = ?", (FAR,))
                            c.commit()
                        except Exception:
                            c.rollback()

                return body

            run, info = il.run_pair(db, [row], il.Segments([("W0", s1), ("W9", 10**6), ("W0", 10**6)]), extra_bodies={"W9": mk})
            obs["evaluations"] += 1
            if run is None:
                obs["scheduler_watchdog"] += 1
                continue
            obs["lock_lapsed_during_handling"] += 1
            keys.add(f"relapse:{spec['name']}:{case['nth']}:{s1}")
            pushes = [a["seq"] for a in run.audit if a["kind"] == "queue" and a["op"] == "ins" and a["c"] == "CompleteTask" and _json.loads(a["d"]).get("task_id") == task_id and a["seq"] > getattr(run, "race_start_seq", 0)]
            tl = oracles.Timeline(run.audit)
            tid_key = next(((m["owner"], m["name"]) for eid, m in tl.meta.items() if eid == task_id), None)
            execs = [r for r in run.ledger if tid_key and r["stage_id"] == tid_key[0] and f"t{r['task']}" == tid_key[1]]
            if polled.get("got"):
                obs["second_worker_got_the_row"] += 1
            if pushes and polled.get("got") and polled.get("pre_seq", 0) >= pushes[0] and len(execs) >= 2:
                violations.append(viol("C02/executed-again-after-result-recorded", f"{spec['name']}: second worker polled the RunTask at seq {polled['pre_seq']}, after the first worker had recorded the result (CompleteTask pushed at seq {pushes[0]}), and executed the task again ({len(execs)} executions); W0 was preempted after {s1} of {na} statements"))
            v2, _ = effect_oracles(spec, run)
            violations += [x for x in v2 if "handled-although-marked" not in x["sig"]]
    finally:
        os.unlink(db)
    seen_s = set()
    uniq = []
    for x in violations:
        if x["sig"] not in seen_s:
            seen_s.add(x["sig"])
            uniq.append(x)
    return {"violations": uniq, "obs": dict(obs), "keys": sorted(keys)}


RELAPSE_ANY_SPECS = [lambda: specs.chain(2), lambda: specs.diamond(), lambda: specs.multitask(), lambda: specs.jump_loop(1, 2), lambda: specs.first_of(2), lambda: specs.synthetic(), lambda: specs.or_split(), lambda: specs.failed_continue()]


def _relapse_any(case: dict) -> dict:
    """EVERY message of a FIFO run in turn is being handled by worker W0 when its lock lapses and a second worker
    polls and handles the same message - at (a sample of) the statement boundaries of W0's handling.  Whatever the
    message type, the workflow ends as in the reference and nothing but the task body of a RunTask in flight is
    executed once more."""
    import json as _json
    import os

    from .. import interleave as il
    from ..world import World

    spec = RELAPSE_ANY_SPECS[case["spec"]]()
    rng = random.Random(case["seed"] * 389 + case["spec"])
    ref = delivery_run(spec, order="fifo")
    refc = oracles.exec_counts(ref.ledger)
    obs: Counter = Counter()
    keys: set = set()
    violations: list = []
    FAR = "2999-01-01T00:00:00+00:00"
    for k in range(ref.steps):
        if k % case["stride"] != case["phase"]:
            continue
        w = World()
        cut = None
        try:
            w.submit(spec)
            for _ in range(k):
                rows = w.eligible(w.rows())
                if not rows:
                    break
                w.deliver(rows[0]["id"])
            rows = w.eligible(w.rows())
            if rows:
                path = os.path.join(il.env.scratch_dir(), f"cut-{os.getpid()}-{random.randrange(1 << 40)}.db")
                w.store._get_connection().commit()
                w.copy_db(path)
                cut = (path, rows[0]["id"], rows[0]["type"], _json.loads(rows[0]["payload"]).get("task_id"), [dict(r) for r in w.ledger])
        finally:
            w.close()
        if cut is None:
            continue
        db, row, mtype, task_id, pre = cut
        try:
            na = il.solo_length(db, row)
            points = list(range(0, na + 1))
            if len(points) > case["points"]:
                points = sorted(rng.sample(points, case["points"]))
            for s1 in points:
                polled: dict = {}

                def mk(world, _polled=polled):
                    def body() -> None:
                        c = world.queue._get_connection()
                        try:
                            c.execute("UPDATE queue_messages SET locked_until = NULL WHERE id = ?", (row,))
                            c.execute("UPDATE queue_messages SET locked_until = ? WHERE id != ? AND locked_until IS NULL", (FAR, row))
                            c.commit()
                            msg = world.queue.poll_one()
                            _polled["got"] = msg is not None
                            if msg is not None:
                                il.worker_body(world, msg)()
                        finally:
                            try:
                                c.execute("UPDATE queue_messages SET locked_until = NULL WHERE locked_until = ?", (FAR,))
                                c.commit()
                            except Exception:
                                c.rollback()

                    return body

                run, info = il.run_pair(db, [row], il.Segments([("W0", s1), ("W9", 10**6), ("W0", 10**6)]), extra_bodies={"W9": mk}, max_steps=ref.steps * 4 + 100)
                obs["evaluations"] += 1
                if run is None:
                    obs["scheduler_watchdog"] += 1
                    continue
                if not polled.get("got"):
                    obs["second_worker_found_the_row_gone"] += 1
                    continue
                obs["same_message_handled_by_two_workers"] += 1
                keys.add(f"relapse_any:{spec['name']}:{mtype}:{k}:{s1}")
                if not run.quiescent:
                    violations.append(viol("C02/same-message-two-workers:not-quiescent", f"{spec['name']}: {mtype} (step {k}) handled by two workers, W0 preempted after {s1}/{na} statements: queue not drained"))
                    continue
                a, b = summarize(ref), summarize(run)
                wit2 = oracles.double_plan_witness(run) if (mtype == "StartStage" and (a["wf"] != b["wf"] or a["stages"] != b["stages"])) else None
                if wit2:
                    # known mechanism (DESIGN 10.3 row 28): the second worker takes the claimed, not yet planned stage for a zombie
                    violations.append(viol("C02/stage-planned-twice:zombie-replan-while-first-claimer-still-planning", f"{wit2}; {spec['name']}: StartStage (step {k}), W0 preempted after {s1}/{na} statements: reference {a['wf']} vs {b['wf']} {b['stages']}"))
                    continue
                if a["wf"] != b["wf"] or a["stages"] != b["stages"]:
                    violations.append(viol(f"C02/same-message-two-workers:outcome-differs:{mtype}", f"{spec['name']}: {mtype} (step {k}) handled by two workers, W0 preempted after {s1}/{na} statements: reference {a['wf']} {a['stages']} vs {b['wf']} {b['stages']}"))
                tc = oracles.exec_counts(pre + run.ledger)
                tl = oracles.Timeline(run.audit)
                in_flight_key = None
                if mtype == "RunTask" and task_id:
                    m = tl.meta.get(task_id)
                    if m:
                        in_flight_key = (m["owner"], m["name"])
                for key in set(refc) | set(tc):
                    r_, t_ = refc.get(key, 0), tc.get(key, 0)
                    if t_ < r_:
                        violations.append(viol(f"C02/same-message-two-workers:execution-missing:{mtype}", f"{spec['name']}: {mtype} (step {k}), W0 preempted after {s1}/{na}: {key} executed {t_} times, reference {r_}"))
                        break
                    if t_ > r_:
                        # only the body of the RunTask in flight may run once more
                        sid_of = {ref_: st_["id"] for ref_, st_ in run.state["stages"].items()}
                        mine = in_flight_key is not None and sid_of.get(key[0]) == in_flight_key[0] and f"t{key[1]}" == in_flight_key[1] and t_ == r_ + 1
                        if not mine:
                            rows_of = {r["stage_id"] for r in run.ledger if r["ref"] == key[0]}
                            if "<" in str(key[0]) and len(rows_of) > 1 and mtype in ("CompleteStage", "StartStage", "ContinueParentStage"):
                                # mechanism (DESIGN 10.3 rows 28 / 31): planning of synthetic children is neither claimed nor
                                # atomic - both handlers of the planning message inserted their own copy of the child
                                violations.append(viol("C02/synthetic-stage-planned-twice:planning-message-handled-by-two-workers", f"{spec['name']}: {mtype} (step {k}) handled by two workers, W0 preempted after {s1}/{na} statements: synthetic stage {key[0]} exists {len(rows_of)} times and each copy ran ({key} executed {t_} times, reference {r_})"))
                            else:
                                violations.append(viol(f"C02/same-message-two-workers:executed-more-often:{mtype}", f"{spec['name']}: {mtype} (step {k}), W0 preempted after {s1}/{na}: {key} executed {t_} times, reference {r_}"))
                            break
        finally:
            os.unlink(db)
    seen_s = set()
    uniq = []
    for x in violations:
        if x["sig"] not in seen_s:
            seen_s.add(x["sig"])
            uniq.append(x)
    return {"violations": uniq, "obs": dict(obs), "keys": sorted(keys)}


def run_case(case: dict) -> dict:
    if case.get("kind") == "relapse_any":
        return _relapse_any(case)
    if case.get("kind") == "exhaustive":
        return _exhaustive(case)
    if case.get("kind") == "relapse":
        return _relapse(case)
    if case.get("kind") == "race":
        return _race(case)
    spec = _spec_for(case["spec_i"], case["seed"])
    ref = delivery_run(spec, order="fifo")
    obs: Counter = Counter()
    violations: list[dict] = []
    keys: set[str] = set()
    v, o = effect_oracles(spec, ref)
    violations += v
    if not ref.quiescent:
        return {"violations": [], "obs": {"reference_not_quiescent": 1}, "keys": []}
    ref_types = [h.get("type") for h in ref.handled]
    ref_key = _seqkey(ref)
    budget = ref.steps * 5 + 80
    sample = None
    for s in _schedules(case, ref_types):
        inj = None
        if s.get("dup"):
            rng = random.Random(s["seed"])
            # duplicate StartStage nudges (what fan-in completions and recovery legitimately produce) - not for the
            # conditional branches of an OR-split, where a StartStage is the routing decision itself
            refs = [x["ref"] for x in spec["stages"] if x["ref"] not in specs.or_branch_refs(spec)] or [spec["stages"][0]["ref"]]
            inj = [{"at": rng.randrange(1, max(2, ref.steps)), "do": "dup_start", "ref": rng.choice(refs)} for _ in range(2)]
        run = delivery_run(spec, seed=s["seed"], order=s["order"], noack_p=s.get("noack_p", 0.0), hold=s.get("hold"), injections=inj, max_steps=budget)
        obs["evaluations"] += 1
        obs["deliveries"] += run.steps
        obs["redeliveries"] += sum(1 for h in run.handled if h.get("ack") is False)
        obs["executions"] += len(run.ledger)
        vs = compare_with_reference(spec, ref, run)
        inconc = [x for x in vs if "INCONCLUSIVE" in x["sig"]]
        if inconc:
            obs["budget_exhausted"] += 1
            continue
        v2, o2 = effect_oracles(spec, run)
        obs.update(o2)
        for x in oracles.attribute(vs + v2, run, "C02"):
            x["schedule"] = s
            x["spec"] = spec["name"]
            violations.append(x)
        k = _seqkey(run)
        if k != ref_key:
            obs["reordered_runs"] += 1
            keys.add(f"{spec['name']}:{hash(k) & 0xFFFFFFFF:x}")
        if sample is None and k != ref_key:
            sample = {"spec": spec["name"], "schedule": s, "delivered": [f"{h.get('type')}{'' if h.get('ack') else '(no ack)'}" for h in run.handled][:60], "outcome": summarize(run)}
    return {"violations": violations[:20], "obs": dict(obs), "keys": sorted(keys), "sample": sample}

"""C05 - when the engine goes quiet every workflow is finished or explicitly waiting."""

from __future__ import annotations

import random
from collections import Counter

from .. import oracles, specs
from ..framework import viol
from ..runs import delivery_run

ID = "C05"
LEVEL = "exploration"
RULE = (
    "case = workflow from the FULL family (random DAGs with failing / stopping / failed-continue branches next to running "
    "ones, early-firing joins with failing or slow branches, synthetic before/after/on-failure stages that fail, "
    "suspending stages without a signal, jump loops that hit the limit, mutex / deferred-choice siblings, a parent with synthetic "
    "children next to a failing sibling whose StartStage is held back until everything else has drained) x delivery "
    "schedules - also with a transient 'database is locked' injected at the COMMIT, or at the first write, of every handler transaction in turn - x delivery "
    "schedule (random / LIFO order, withheld acks, one message held back k steps); plus the same family run by three "
    "worker threads interleaved at SQL-statement granularity (random / PCT schedules), and every pair of co-enabled messages "
    "of ten shapes handled by two workers under the one-preemption schedules; and operator restarts of every completed stage "
    "of eight shapes when the workflow is nearly or entirely finished. After the queue is drained the "
    "four quiescence predicates are evaluated on store.retrieve(). Non-trivial = quiescent run whose final state is not "
    "all-SUCCEEDED; distinct = (workflow status, sorted multiset of stage statuses, spec shape)."
)
ASSUMPTIONS = ["SQLite backend", "quiescence = queue_messages empty after virtual-time warps; wait-budget exhaustion (max_stage_wait_retries=6) ending TERMINAL is legal and counted"]
MIN_OBS = {"quiescent_runs": {"quick": 1000, "thorough": 20000}, "nonsuccess_final_states": {"quick": 100, "thorough": 2000}, "late_start_runs": {"quick": 100, "thorough": 800}, "commit_faults_injected": {"quick": 150, "thorough": 1500}, "pair_schedule_quiescent_runs": {"quick": 400, "thorough": 10000}, "restarts_of_completed_stages": {"quick": 100, "thorough": 100}}
TIMEOUT = {"quick": 600, "thorough": 3000}

HOLD_TYPES = ["StartStage", "CompleteStage", "CompleteTask", "RunTask", "CancelStage", "CompleteWorkflow", "ContinueParentStage", "JumpToStage"]


def _spec_for(i: int, seed: int) -> dict:
    rng = random.Random(seed * 15485863 + i)
    m = i % 12
    if m < 5:
        sp = specs.random_dag(rng, max_stages=7)
        sp["name"] = f"rand{seed}_{i}"
        return sp
    if m < 7:
        return specs.synthetic_variant(rng)
    if m == 7:
        return specs.first_of_failing(rng)
    if m == 8:
        return specs.jump_limit(rng.choice([0, 1, 2, 3, None]), rng.choice(["wf", "stage"]), rng.choice(["loop", "self", "side"]))
    if m == 9:
        if rng.random() < 0.5:
            return specs.failing_sibling_of_synthetic(rng)
        return rng.choice([specs.suspend_wf, specs.mutex_pair, specs.choice_pair, specs.racing_failure])()
    if m == 10:
        return specs.or_split_variant(rng)
    return rng.choice(specs.CONFLUENT_FAMILY)()


def gen_cases(tier: str, seed: int) -> list[dict]:
    n, k = (80, 20) if tier == "quick" else (500, 80)
    cases = [{"spec_i": i, "seed": seed, "nsched": k} for i in range(n)]
    cases += [{"kind": "race", "i": i, "seed": seed, "runs": 12} for i in range(24 if tier == "quick" else 200)]
    cases += [{"kind": "late_start", "i": i, "seed": seed} for i in range(6 if tier == "quick" else 40)]
    cases += [{"kind": "commit_fault", "i": i, "seed": seed} for i in range(10 if tier == "quick" else 80)]
    cases += [{"kind": "restart_after", "spec": sp, "seed": seed} for sp in range(8)]
    stride = 3 if tier == "quick" else 1
    for sp in ((0, 2, 4, 8, 9) if tier == "quick" else range(10)):
        for phase in range(stride):
            cases.append({"kind": "pairs", "spec": sp, "seed": seed, "stride": stride, "phase": phase, "sample": 6 if tier == "quick" else 30})
    cases += [{"kind": "commit_fault", "i": i, "seed": seed, "at": "first_write"} for i in range(6 if tier == "quick" else 60)]
    return cases


def _race(case: dict) -> dict:
    """Three workers polling one queue, interleaved at statement granularity (random / PCT)."""
    from .. import interleave as il

    rng = random.Random(case["seed"] * 127 + case["i"])
    obs: Counter = Counter()
    keys: set = set()
    violations = []
    for j in range(case["runs"]):
        spec = _spec_for(rng.randrange(10**6), case["seed"])
        s = rng.randrange(1 << 30)
        pol = il.RandomPolicy(s, rng.choice([0.2, 0.4])) if j % 2 else il.PCT(s, rng.randint(2, 5), 500)
        run, info = il.run_workers(spec, 3, pol)
        obs["evaluations"] += 1
        if run is None:
            obs["scheduler_watchdog"] += 1
            continue
        obs["interleaved_runs"] += 1
        if not run.quiescent:
            obs["budget_exhausted"] += 1
            continue
        obs["quiescent_runs"] += 1
        v = oracles.attribute(oracles.quiescence_check(run, "C05", spec), run, "C05")
        if getattr(run, "dlq_after_final", False):
            obs["dead_lettered_message_in_final_workflow"] += 1
        if v:
            lp = oracles.lost_plan_witness(run)
            if lp:
                v = [viol("C05/stuck-nonfinal:start-lost-plan-commit-lost-optimistic-lock-and-error-swallowed", f"{lp}; symptoms {[x['sig'] for x in v][:3]}")]
        for x in v:
            x.update(spec=spec["name"], policy_seed=s, interleaved=True)
        violations += v
        sts = sorted(st["status"] for st in run.state["stages"].values())
        if any(x != "SUCCEEDED" for x in sts):
            obs["nonsuccess_final_states"] += 1
        keys.add(f"race:{run.state['wf']}:{info['trace_hash']}")
    seen = set()
    uniq = []
    for x in violations:
        if x["sig"] not in seen:
            seen.add(x["sig"])
            uniq.append(x)
    return {"violations": uniq, "obs": dict(obs), "keys": sorted(keys)}


def _late_start(case: dict) -> dict:
    """A StartStage that is held back until the rest of the workflow has drained (its worker was slow, its
    lock lapsed, ...): the stage - here one with synthetic children, next to a failing sibling - starts in a
    workflow that is already final and must still be wound down to a final status."""
    rng = random.Random(case["seed"] * 977 + case["i"])
    spec = specs.failing_sibling_of_synthetic(rng) if case["i"] % 3 else specs.synthetic_variant(rng)
    obs: Counter = Counter()
    keys: set = set()
    violations = []
    for nth in range(0, 4):
        for steps in (8, 20, 45, 90):
            for order in ("fifo", "random"):
                run = delivery_run(spec, seed=rng.randrange(1 << 30), order=order, hold={"type": "StartStage", "nth": nth, "steps": steps}, max_steps=900)
                obs["evaluations"] += 1
                obs["late_start_runs"] += 1
                if run.budget_exhausted or not run.quiescent:
                    obs["budget_exhausted"] += 1
                    continue
                obs["quiescent_runs"] += 1
                v = oracles.attribute(oracles.quiescence_check(run, "C05", spec), run, "C05")
                if getattr(run, "dlq_after_final", False):
                    obs["dead_lettered_message_in_final_workflow"] += 1
                for x in v:
                    x.update(spec=spec["name"], held_start_stage=nth, held_for=steps)
                violations += v
                sts = sorted(s_["status"] for s_ in run.state["stages"].values())
                keys.add(f"late:{spec['name'].split('_')[0]}:{run.state['wf']}:{','.join(sts)}")
    seen = set()
    uniq = []
    for x in violations:
        if x["sig"] not in seen:
            seen.add(x["sig"])
            uniq.append(x)
    return {"violations": uniq, "obs": dict(obs), "keys": sorted(keys)}


class _CommitFault:
    """One-shot failpoint: the n-th COMMIT issued by the engine fails with 'database is locked' (another
    connection was reading at that instant); everything the transaction wrote is rolled back by the caller."""

    def __init__(self, n: int, at: str = "commit") -> None:
        self.n, self.count, self.fired, self.where, self.at = n, 0, False, None, at

    def __call__(self, conn, sql, args) -> None:
        if self.fired:
            return
        if self.at == "commit":
            if sql != "COMMIT" or not conn.in_transaction:
                return
        else:
            # the first write of a transaction (sqlite takes the RESERVED lock there; python's implicit BEGIN is deferred)
            if conn.in_transaction or sql.lstrip()[:6].upper() not in ("INSERT", "UPDATE", "DELETE"):
                return
        import threading

        from .. import vtask

        w = vtask._current
        if w is None or not w.current.get(threading.current_thread().name):
            return  # only commits made while a message is being handled (not the submitting client's)
        if self.count == self.n:
            self.fired = True
            self.where = str(w.current.get(threading.current_thread().name))
            import sqlite3

            raise sqlite3.OperationalError("database is locked")
        self.count += 1


def _commit_fault(case: dict) -> dict:
    """A transient lock error at COMMIT time of EVERY transaction of the run in turn (the engine's own retry
    policies or the queue's redelivery have to carry on): afterwards the workflow must still reach a final status."""
    from .. import hooks

    rng = random.Random(case["seed"] * 1543 + case["i"])
    if case["i"] < 2:
        # shapes in which one completion has two jobs (record its branch on an early-firing join AND start its own successor)
        spec = specs.early_join_with_successor("DISCRIMINATOR" if case["i"] == 0 else "N_OF_M")
    else:
        spec = _spec_for(case["i"] * 7 + 3, case["seed"]) if case["i"] % 2 else rng.choice(specs.CONFLUENT_FAMILY)()
    base = delivery_run(spec, max_steps=1500)
    obs: Counter = Counter()
    keys: set = set()
    violations = []
    if not base.quiescent:
        return {"violations": [], "obs": {"reference_not_quiescent": 1}, "keys": []}
    at = case.get("at", "commit")
    ncommits = len([c for c in base.commits if c[3]])
    positions = list(range(ncommits + (4 if at != "commit" else 0)))
    if len(positions) > 40:
        positions = sorted(rng.sample(positions, 40))
    for n in positions:
        fp = _CommitFault(n, at)
        hooks.H.stmt_hook = fp
        try:
            run = delivery_run(spec, max_steps=base.steps * 4 + 100)
        finally:
            hooks.H.stmt_hook = None
        obs["evaluations"] += 1
        if not fp.fired:
            continue
        obs["commit_faults_injected"] += 1
        if run.budget_exhausted or not run.quiescent:
            obs["budget_exhausted"] += 1
            continue
        obs["quiescent_runs"] += 1
        v = oracles.attribute(oracles.quiescence_check(run, "C05", spec), run, "C05")
        if getattr(run, "dlq_after_final", False):
            obs["dead_lettered_message_in_final_workflow"] += 1
        if run.state["wf"] != base.state["wf"] and not v:
            obs["outcome_changed_by_commit_fault"] += 1
        for x in v:
            x.update(spec=spec["name"], commit_fault_at=n, commit_fault_in=fp.where, at=at)
        violations += v
        keys.add(f"{at}fault:{spec['name'].split('_')[0]}:{run.state['wf']}")
    seen = set()
    uniq = []
    for x in violations:
        if x["sig"] not in seen:
            seen.add(x["sig"])
            uniq.append(x)
    return {"violations": uniq, "obs": dict(obs), "keys": sorted(keys)}


def _pairs(case: dict) -> dict:
    """Every pair of co-enabled messages of a FIFO run handled by two workers under every one-preemption schedule
    (sampled) - C07's pair exploration - with the quiescence predicates evaluated on the drained result."""
    from . import c07

    r = c07._serial_pairs(dict(case, kind="serial_pairs", quiescence=True))
    obs = dict(r["obs"])
    obs["pair_schedule_quiescent_runs"] = obs.pop("quiescent_runs", 0)
    return {"violations": r["violations"], "obs": obs, "keys": ["c05" + k for k in r["keys"]]}


RESTART_SPECS = [lambda: specs.chain(3), lambda: specs.diamond(), lambda: specs.multitask(), lambda: specs.first_of(2), lambda: specs.or_split(), lambda: specs.synthetic(), lambda: specs.terminal_mid(), lambda: specs.failed_continue()]


def _restart_after(case: dict) -> dict:
    """An operator restarts a completed stage - every top-level stage in turn - when the workflow is (nearly or
    entirely) finished: the execution goes back to RUNNING, the stage runs again, and whatever its downstream looks
    like (not started yet, or finished in the earlier run) the workflow has to reach a final status again."""
    spec = RESTART_SPECS[case["spec"]]()
    ref = delivery_run(spec)
    obs: Counter = Counter()
    keys: set = set()
    violations = []
    rng = random.Random(case["seed"] * 419 + case["spec"])
    for s_ in spec["stages"]:
        for at in (ref.steps + 1, ref.steps - 1, ref.steps - 3, max(2, ref.steps // 2)):
            for order in ("fifo", "random"):
                run = delivery_run(spec, seed=rng.randrange(1 << 30), order=order, injections=[{"at": at, "do": "restart_stage", "ref": s_["ref"]}], max_steps=ref.steps * 6 + 200)
                obs["evaluations"] += 1
                if run.budget_exhausted or not run.quiescent:
                    obs["budget_exhausted"] += 1
                    continue
                obs["quiescent_runs"] += 1
                restarted = any(a["kind"] == "mark" and a["op"] == "ins" and a["b"] == "RestartStage" for a in run.audit)
                if restarted:
                    obs["restarts_of_completed_stages"] += 1
                    keys.add(f"restart:{spec['name']}:{s_['ref']}:{run.state['wf']}")
                v = oracles.attribute(oracles.quiescence_check(run, "C05", spec), run, "C05")
                for x in v:
                    x.update(spec=spec["name"], restarted=s_["ref"], restart_before_step=at, order=order)
                violations += v
    seen = set()
    uniq = []
    for x in violations:
        if x["sig"] not in seen:
            seen.add(x["sig"])
            uniq.append(x)
    return {"violations": uniq, "obs": dict(obs), "keys": sorted(keys)}


def run_case(case: dict) -> dict:
    if case.get("kind") == "restart_after":
        return _restart_after(case)
    if case.get("kind") == "pairs":
        return _pairs(case)
    if case.get("kind") == "race":
        return _race(case)
    if case.get("kind") == "commit_fault":
        return _commit_fault(case)
    if case.get("kind") == "late_start":
        return _late_start(case)
    spec = _spec_for(case["spec_i"], case["seed"])
    rng = random.Random(case["seed"] * 131 + case["spec_i"])
    obs: Counter = Counter()
    keys: set = set()
    violations = []
    ref = delivery_run(spec, max_steps=1500)
    budget = ref.steps * 6 + 200
    sample = None
    runs = [ref]
    for j in range(case["nsched"]):
        hold = None
        if j % 3 == 2:
            hold = {"type": rng.choice(HOLD_TYPES), "nth": rng.randrange(0, 3), "steps": rng.choice([3, 10, 40])}
        runs.append(delivery_run(spec, seed=rng.randrange(1 << 30), order=rng.choice(["random", "random", "lifo"]), noack_p=rng.choice([0.0, 0.2, 0.35]), hold=hold, max_steps=budget))
    for run in runs:
        obs["evaluations"] += 1
        if run.budget_exhausted or not run.quiescent:
            obs["budget_exhausted"] += 1
            continue
        obs["quiescent_runs"] += 1
        v = oracles.attribute(oracles.quiescence_check(run, "C05", spec), run, "C05")
        if getattr(run, "dlq_after_final", False):
            obs["dead_lettered_message_in_final_workflow"] += 1
        for x in v:
            x["spec"] = spec["name"]
        violations += v
        sts = sorted(s["status"] for s in run.state["stages"].values())
        if any(s != "SUCCEEDED" for s in sts) or run.state["wf"] != "SUCCEEDED":
            obs["nonsuccess_final_states"] += 1
            keys.add(f"{spec['name'].split('_')[0]}:{run.state['wf']}:{','.join(sts)}")
        if any(s["status"] == "SUSPENDED" for s in run.state["stages"].values()):
            obs["explicitly_waiting"] += 1
        if any("Exceeded max retries" in str(s["context"].get("exception")) for s in run.state["stages"].values()):
            obs["wait_budget_exhausted_terminal"] += 1
        if sample is None and run.state["wf"] != "SUCCEEDED":
            sample = {"spec": spec, "final": {"wf": run.state["wf"], "stages": {k: v["status"] for k, v in run.state["stages"].items()}}, "steps": run.steps}
    return {"violations": violations[:10], "obs": dict(obs), "keys": sorted(keys), "sample": sample}

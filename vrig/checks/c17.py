"""C17 - after a cancel is accepted no further task starts and the workflow ends."""

from __future__ import annotations

import random
from collections import Counter

from .. import oracles, specs
from ..framework import viol
from ..runs import delivery_run

ID = "C17"
LEVEL = "exploration"
RULE = (
    "case = workflow (parallel branches, multi-task stages, polling / transient-retry tasks, synthetic before/after "
    "stages, suspended stage, jump loops, early-firing joins) x cancel request injected before EVERY delivery step of "
    "the reference run x {FIFO, random order, random order with withheld acks} (the CancelWorkflow message itself is "
    "subject to the order, i.e. can be overtaken); plus two workflows sharing a concurrency limit of 1, the second BUFFERED, "
    "cancelled at every step while it waits or runs. tau = audit sequence number of the durable is_canceled 0->1 row. "
    "Oracles: no ledger entry begins after tau; every top-level stage unfinished at tau ends CANCELED; nothing RUNNING; "
    "workflow final and CANCELED unless every top-level stage had finished at tau or a stage is TERMINAL. The same oracle "
    "runs over workflows executed by 2-4 worker threads interleaved at SQL-statement granularity while a further thread "
    "issues the cancel at a random point; there a task execution beginning after tau is exempt only when its RunTask "
    "delivery had been polled before tau (handler already in flight), and a non-CANCELED final status only when the "
    "CompleteWorkflow that wrote it had been polled before tau. An accepted cancel is sticky: is_canceled never goes back "
    "to 0 (checked on every run); and CancelWorkflow x the handler next in line (every handler type, from every step of "
    "three small workflows, also after pause / park / unpause so that the partner is a ResumeStage) run as a designated "
    "pair under every <= 2-preemption schedule (sampled): the partner read the workflow before the cancel existed and "
    "must not undo it; afterwards no delivery runs a task body and the workflow ends final. Non-trivial = "
    "cancel became durable while >=1 stage was unfinished; distinct = (spec, multiset of stage statuses at tau)."
)
ASSUMPTIONS = ["SQLite backend", "'begins executing' = Task.execute entry (ledger record) compared by audit sequence number"]
MIN_OBS = {"cancels_while_unfinished": {"quick": 500, "thorough": 8000}, "interleaved_runs": {"quick": 80, "thorough": 1000}, "cancel_pair_runs_with_switch": {"quick": 500, "thorough": 3000}}
TIMEOUT = {"quick": 600, "thorough": 3000}


def _specs(tier: str, seed: int) -> list[dict]:
    rng = random.Random(seed)
    lib = [
        specs.diamond(), specs.multitask(), specs.polling(2), specs.transient(2, True), specs.synthetic(),
        specs.suspend_wf(), specs.jump_loop(2, 3), specs.self_loop(2), specs.first_of(2), specs.quorum(3, 2),
        specs.failed_continue(), specs.or_split(), specs.jump_side_branch(1), specs.mutex_pair(), specs.racing_failure(),
    ]
    extra = 0 if tier == "quick" else 85
    for i in range(extra):
        sp = specs.random_dag(rng, max_stages=6)
        sp["name"] = f"rand{seed}_{i}"
        lib.append(sp)
    return lib


def gen_cases(tier: str, seed: int) -> list[dict]:
    cases = [{"kind": "buffered", "order": o, "seed": seed, "keep": k} for o in ("fifo", "random", "random_noack") for k in (False, True)]
    for i, _ in enumerate(_specs(tier, seed)):
        for order in ("fifo", "random", "random_noack"):
            cases.append({"spec_i": i, "order": order, "seed": seed})
    for i in range(100 if tier == "quick" else 1200):
        cases.append({"kind": "race", "spec_i": i, "seed": seed})
    for sp in range(len(PAIR_SPECS)):
        for paused in (False, True):
            cases.append({"kind": "pair", "spec": sp, "paused": paused, "seed": seed, "sample": 10 if tier == "quick" else 60})
    return cases


def cancel_oracle(spec: dict, run, in_flight_ords: set | None = None) -> tuple[list[dict], Counter, set]:
    out = []
    obs: Counter = Counter()
    keys: set = set()
    tau = None
    for a in run.audit:
        if a["kind"] == "cancel" and str(a["d"]) == "1":
            tau = a["seq"]
            break
    if tau is None:
        obs["cancel_after_completion"] += 1
        return out, obs, keys
    undone = [a for a in run.audit if a["kind"] == "cancel" and a["seq"] > tau and str(a["d"]) == "0"]
    if undone:
        groups_ = oracles.Groups(run.commits)
        out.append(viol("C17/accepted-cancel-undone", f"is_canceled went back to 0 at seq {undone[0]['seq']} (written by {groups_.tag(groups_.of(undone[0]['seq']))}) after the cancel was durable at seq {tau}"))
    tl = oracles.Timeline(run.audit)
    ids = oracles.stage_ids(run.audit)
    top = {s["ref"] for s in spec["stages"]}
    at_tau = {r: tl.at(ids[r], tau) for r in top if r in ids}
    unfinished = {r for r, s in at_tau.items() if s not in oracles.COMPLETE}
    late = [r for r in run.ledger if r["seq"] >= tau and r["ord"] not in (in_flight_ords or ())]
    obs["executions_in_flight_at_cancel"] += sum(1 for r in run.ledger if r["seq"] >= tau and r["ord"] in (in_flight_ords or ()))
    for r in late:
        out.append(viol("C17/task-started-after-cancel", f"{r['ref']}.t{r['task']} began executing at seq {r['seq']} >= cancel commit {tau}"))
    if not run.quiescent:
        out.append(viol("C17/not-quiescent", f"queue not drained after {run.steps} deliveries"))
        return out, obs, keys
    final = run.state["stages"]
    wf = run.state["wf"]
    if unfinished:
        obs["cancels_while_unfinished"] += 1
        keys.add(f"{spec['name']}:{','.join(sorted(str(v) for v in at_tau.values()))}")
    groups = oracles.Groups(run.commits)
    jump_after = [a for a in run.audit if a["kind"] == "mark" and a["op"] == "ins" and a["b"] == "JumpToStage" and a["seq"] > tau]
    rearmed_after = [a for a in run.audit if a["kind"] == "status" and a["op"] == "stage" and a["d"] == "NOT_STARTED" and a["seq"] > tau]
    mech = ":jump-handled-after-cancel-rearmed-stages" if (jump_after and rearmed_after) else ""
    for r in sorted(unfinished):
        fs = final[r]["status"]
        if fs not in oracles.COMPLETE:
            out.append(viol(f"C17/unfinished-stage-not-ended{mech}", f"{r} was {at_tau[r]} when the cancel became durable and ends {fs} (workflow {wf})"))
        elif fs != "CANCELED":
            # a stage may keep its natural outcome only if all of its work had been executed before the cancel
            # (no task of it may begin afterwards - checked above - so none of its tasks can be left unfinished)
            bad = [t for t in final[r]["tasks"] if t[1] in ("CANCELED", "NOT_STARTED", "RUNNING")]
            if bad and fs != "SKIPPED":
                out.append(viol(f"C17/stage-outcome-with-unfinished-tasks{mech}", f"{r} ends {fs} with tasks {final[r]['tasks']}"))
            # ... and "all of its work had been executed" literally: every task that ends with an outcome of its
            # own must have a body execution on record (begun before tau - later ones are flagged above)
            if fs != "SKIPPED":
                sid = ids.get(r)
                ran = {x["task"] for x in run.ledger if x["stage_id"] == sid}
                ghost = [t for i, t in enumerate(final[r]["tasks"]) if t[1] in ("SUCCEEDED", "FAILED_CONTINUE", "TERMINAL", "STOPPED") and i not in ran]
                if ghost:
                    out.append(viol(f"C17/task-outcome-without-execution{mech}", f"{r} was {at_tau[r]} at the cancel commit and ends {fs}; tasks {ghost} carry an outcome although their body never ran"))
            obs["finished_in_effect_kept_outcome"] += 1
    for r in sorted(top - unfinished):
        if r in final and final[r]["status"] != at_tau.get(r):
            out.append(viol(f"C17/finished-stage-changed-after-cancel{mech}", f"{r} was {at_tau.get(r)} at the cancel commit and ends {final[r]['status']}"))
    running = [k for k, v in final.items() if v["status"] == "RUNNING"]
    if running:
        out.append(viol(f"C17/stage-left-running{mech}", f"{running}"))
    if wf not in oracles.COMPLETE:
        out.append(viol(f"C17/workflow-not-final{mech}", f"workflow {wf} after cancel; stages { {k: v['status'] for k, v in final.items()} }"))
    else:
        canceled_any = any(final[r]["status"] == "CANCELED" for r in unfinished)
        terminal_any = any(v["status"] == "TERMINAL" for v in final.values())
        if canceled_any and wf != "CANCELED" and not (terminal_any and wf == "TERMINAL"):
            stopped_any = any(v["status"] == "STOPPED" for k, v in final.items() if k in top)
            # the known mechanism decides BEFORE the cancel reached the stages: when the final status was written no
            # top-level stage was CANCELED yet (a STOPPED one let CompleteWorkflow report success, the CancelStage
            # messages came afterwards).  A SUCCEEDED written while a stage already was CANCELED is something else.
            fin_rows = [a for a in run.audit if a["kind"] == "status" and a["op"] == "wf" and a["d"] in oracles.COMPLETE]
            canceled_at_decision = bool(fin_rows) and any(tl.at(ids[r], fin_rows[-1]["seq"] - 1) == "CANCELED" for r in top if r in ids)
            if wf == "SUCCEEDED" and stopped_any and not canceled_at_decision:
                # known mechanism (DESIGN 10.3 row 13): a STOPPED top-level stage makes CompleteWorkflow report SUCCEEDED
                out.append(viol("C17/final-status-not-canceled:stopped-stage-makes-workflow-succeed", f"workflow SUCCEEDED although stages were canceled: { {k: v['status'] for k, v in final.items()} }"))
            else:
                out.append(viol(f"C17/final-status-not-canceled{mech}", f"workflow {wf} although stages were canceled: { {k: v['status'] for k, v in final.items()} }"))
    if mech:
        with_mech = [v for v in out if v["sig"].endswith(mech)]
        if with_mech:
            out = [v for v in out if not v["sig"].endswith(mech)]
            out.append(viol("C17/jump-handled-after-cancel-rearmed-stages", "; ".join(v["msg"] for v in with_mech)[:600]))
    return out, obs, keys


def _buffered(case: dict) -> dict:
    """Cancel of a workflow that is BUFFERED behind a concurrency limit: the cancel must
    stick - when the slot frees up the workflow must not start after all."""
    cfg = {"pipeline_config_id": "P", "max_concurrent_executions": 1, "keep_waiting_pipelines": case["keep"]}
    first = dict(specs.diamond(), wf=cfg)
    second = {"name": "buffered2", "confluent": True, "wf": cfg, "stages": [specs.st("x", [], [dict(specs.OK), dict(specs.OK)]), specs.st("y", ["x"])]}

    def pre(w):
        first_id = w.wf_id
        w.submit(second)
        w.first_wf = first_id

    ref = delivery_run(first, pre_hook=pre)
    obs: Counter = Counter()
    keys: set = set()
    violations = []
    rng = random.Random(case["seed"] * 19)
    order = "fifo" if case["order"] == "fifo" else "random"
    noack = 0.25 if case["order"] == "random_noack" else 0.0
    for step in range(2, ref.steps + 1):
        run = delivery_run(first, pre_hook=pre, seed=rng.randrange(1 << 30), order=order, noack_p=noack, injections=[{"at": step, "do": "cancel"}], max_steps=ref.steps * 5 + 100)
        obs["evaluations"] += 1
        wf2 = run.wf_id
        run.ledger = [r for r in run.ledger if r["wf"] == wf2]
        tau = next((a["seq"] for a in run.audit if a["kind"] == "cancel" and a["a"] == wf2 and str(a["d"]) == "1"), None)
        # when was the CancelWorkflow message consumed, and what was the workflow's status then?
        handled = next((a["seq"] for a in run.audit if a["kind"] == "mark" and a["op"] == "ins" and a["b"] == "CancelWorkflow" and a["c"] == wf2), None)
        at = tau if tau is not None else handled
        wf_status_at_cancel = None
        for a in run.audit:
            if a["kind"] == "status" and a["op"] in ("wf", "wf_ins") and a["a"] == wf2 and (at is None or a["seq"] < at):
                wf_status_at_cancel = a["d"]
        v, o, k = cancel_oracle(second, run)
        obs.update(o)
        if wf_status_at_cancel == "BUFFERED":
            obs["cancels_of_buffered_workflow"] += 1
            keys.add(f"buffered:{case['order']}:{case['keep']}:{step}")
        if tau is None and handled is not None and wf_status_at_cancel not in oracles.COMPLETE:
            later = [r for r in run.ledger if r["seq"] >= handled]
            v.append(viol("C17/cancel-request-had-no-effect", f"CancelWorkflow was consumed at seq {handled} while the workflow was {wf_status_at_cancel} without setting is_canceled; {len(later)} task(s) began executing afterwards, workflow ends {run.state['wf']}"))
        for x in v:
            x.update(scenario="buffered", cancel_at_step=step, order=case["order"])
        violations += v
    seen = set()
    uniq = []
    for x in violations:
        if x["sig"] not in seen:
            seen.add(x["sig"])
            uniq.append(x)
    return {"violations": uniq, "obs": dict(obs), "keys": sorted(keys)}


def _race(case: dict) -> dict:
    """Cancel issued from its own thread while 2-4 worker threads run the workflow, everything
    interleaved at SQL-statement granularity.  A task execution that begins after the cancel commit is
    a violation unless the delivery it belongs to had been polled before the cancel was durable (a
    handler already in flight: it read the workflow before the cancel existed)."""
    from .. import interleave as il

    sp = _specs("thorough", case["seed"])
    i = case["spec_i"]
    # library shapes (loops, joins, synthetic stages, ...) every second case, random DAGs otherwise
    spec = sp[(i // 2) % 15] if i % 2 == 0 else sp[15 + (i // 2) % (len(sp) - 15)]
    rng = random.Random(case["seed"] * 9176 + case["spec_i"])
    records: list = []

    def injector(w, sched, stop):
        il.idle_points(sched, rng.randrange(0, 400), stop)
        w.cancel()

    run, info = il.race_run(spec, rng, injector=injector, records=records)
    obs: Counter = Counter({"evaluations": 1})
    if run is None:
        obs["scheduler_failed"] += 1
        return {"violations": [], "obs": dict(obs), "keys": [], "inconclusive": info.get("failed")}
    obs["interleaved_runs"] += 1
    tau = next((a["seq"] for a in run.audit if a["kind"] == "cancel" and str(a["d"]) == "1"), None)
    in_flight: set = set()
    if tau is not None:
        # task bodies run on bulkhead pool threads: a ledger entry is tied to its delivery through
        # the task id carried by the RunTask message
        tl = oracles.Timeline(run.audit)
        task_of = {(m["owner"], m["name"]): eid for eid, m in tl.meta.items() if m["kind"] == "task"}
        by_task: dict[str, list] = {}
        for d in records:
            if d["type"] == "RunTask" and d.get("task_id"):
                by_task.setdefault(d["task_id"], []).append(d)
        for r in run.ledger:
            if r["seq"] < tau:
                continue
            tid = task_of.get((r["stage_id"], f"t{r['task']}"))
            mine = sorted((d for d in by_task.get(tid, []) if d["post_poll_seq"] <= r["seq"]), key=lambda d: d["post_poll_seq"])
            if mine and mine[-1]["post_poll_seq"] < tau:
                in_flight.add(r["ord"])
    v, o, k = cancel_oracle(spec, run, in_flight)
    if tau is not None and any(x["sig"] == "C17/final-status-not-canceled" for x in v):
        # "unless it had in effect already finished": the CompleteWorkflow that wrote the final status
        # was already being handled (polled before the cancel was durable)
        groups = oracles.Groups(run.commits)
        fin = [a for a in run.audit if a["kind"] == "status" and a["op"] == "wf" and a["d"] in oracles.COMPLETE]
        tag = groups.tag(groups.of(fin[-1]["seq"])) if fin else None
        d = next((d for d in records if tag and d["type"] == "CompleteWorkflow" and str(d["polled"]) == str(tag[1])), None)
        if d is not None and d["post_poll_seq"] < tau:
            v = [x for x in v if x["sig"] != "C17/final-status-not-canceled"]
            obs["workflow_completion_in_flight_at_cancel"] += 1
    v = oracles.attribute(v, run, "C17")
    obs.update(o)
    for x in v:
        x.update(spec=spec["name"], interleaved=True, trace_hash=info["trace_hash"])
    seen = set()
    uniq = []
    for x in v:
        if x["sig"] not in seen:
            seen.add(x["sig"])
            uniq.append(x)
    return {"violations": uniq, "obs": dict(obs), "keys": sorted("race:" + x for x in k)}


PAIR_SPECS = [lambda: specs.chain(2), lambda: specs.diamond(), lambda: specs.multitask()]


def _pair(case: dict) -> dict:
    """CancelWorkflow x whatever handler is next, as two designated handler invocations interleaved at statement
    granularity (every schedule with <= 2 preemptions, sampled), from EVERY step of a FIFO run - optionally of a run
    that was paused, parked and unpaused first (so the partner is a ResumeStage).  The partner read the workflow
    before the cancel existed; whatever it writes afterwards must not undo the accepted cancel, and after the
    rest has been drained the workflow is final and still flagged canceled."""
    import os

    from .. import interleave as il
    from ..world import World

    spec = PAIR_SPECS[case["spec"]]()
    rng = random.Random(case["seed"] * 613 + case["spec"] * 7 + (1 if case["paused"] else 0))
    obs: Counter = Counter()
    keys: set = set()
    violations: list = []
    ref = delivery_run(spec)
    for k in range(1, ref.steps + (3 if case["paused"] else 0)):
        w = World()
        cut = None
        try:
            w.submit(spec)
            steps = 0
            paused_at = max(1, k - 2) if case["paused"] else None
            while steps < k:
                if paused_at is not None and steps == paused_at:
                    w.store.pause(w.wf_id, "verif")
                rows = w.eligible(w.rows())
                if not rows:
                    break
                w.deliver(rows[0]["id"])
                steps += 1
            if case["paused"]:
                # let the paused workflow park, then unpause: ResumeStage messages are queued
                for _ in range(40):
                    rows = w.eligible(w.rows())
                    if not rows:
                        break
                    w.deliver(rows[0]["id"])
                wf = w.store.retrieve(w.wf_id)
                if wf.status.name != "PAUSED":
                    continue
                w.orch.unpause(wf)
            rows = w.eligible(w.rows())
            if not rows:
                continue
            other = rows[0]
            w.cancel()
            cw = [r for r in w.rows() if r["type"] == "CancelWorkflow"]
            if not cw:
                continue
            path = os.path.join(il.env.scratch_dir(), f"cut-{os.getpid()}-{random.randrange(1 << 40)}.db")
            w.store._get_connection().commit()
            w.copy_db(path)
            cut = (path, [other["id"], cw[0]["id"]], other["type"])
        finally:
            w.close()
        if cut is None:
            continue
        db, rows_, otype = cut
        try:
            na, nb = il.solo_length(db, rows_[0]), il.solo_length(db, rows_[1])
            scheds = il.bound_schedules(na, nb, 2, sample=case["sample"], rng=rng)
            if len(scheds) > case["sample"] * 2:
                scheds = scheds[:2] + rng.sample(scheds[2:], case["sample"] * 2 - 2)
            for sc in scheds:
                run, info = il.run_pair(db, rows_, il.Segments(sc))
                obs["evaluations"] += 1
                if run is None:
                    obs["scheduler_watchdog"] += 1
                    continue
                obs["cancel_pair_runs"] += 1
                if info["switches"]:
                    keys.add(f"cancelpair:{otype}:{'paused' if case['paused'] else 'plain'}:{info['trace_hash']}")
                    obs["cancel_pair_runs_with_switch"] += 1
                tau = next((a["seq"] for a in run.audit if a["kind"] == "cancel" and str(a["d"]) == "1" and a["seq"] > run.since), None)
                v = []
                if tau is None:
                    obs["cancel_not_accepted"] += 1
                    continue
                undone = [a for a in run.audit if a["kind"] == "cancel" and a["seq"] > tau and str(a["d"]) == "0"]
                groups = oracles.Groups(run.commits)
                if undone:
                    v.append(viol("C17/accepted-cancel-undone", f"is_canceled went back to 0 at seq {undone[0]['seq']} (written by {groups.tag(groups.of(undone[0]['seq']))}) after the cancel was durable at seq {tau}"))
                if not run.quiescent:
                    v.append(viol("C17/not-quiescent", f"queue not drained after the pair + {run.steps} deliveries"))
                elif run.state["wf"] not in oracles.COMPLETE:
                    v.append(viol("C17/workflow-not-final", f"workflow {run.state['wf']} after cancel x {otype}; stages { {k2: v2['status'] for k2, v2 in run.state['stages'].items()} }"))
                # everything delivered after the pair was polled after the cancel commit: none of it may run a task body
                drained = [h for h in run.handled if h.get("commits")]
                race_end = drained[0]["commits"][0] if drained else 1 << 60
                for r in run.ledger:
                    if r["seq"] > tau and r["commit"] >= race_end:
                        v.append(viol("C17/task-started-after-cancel", f"{r['ref']}.t{r['task']} began executing at seq {r['seq']} > cancel commit {tau} in a delivery polled after it"))
                        break
                for x in v:
                    x.update(pair=f"CancelWorkflow x {otype}", paused=case["paused"], step=k, schedule=sc, spec=spec["name"])
                violations += v
        finally:
            os.unlink(db)
    seen = set()
    uniq = []
    for x in violations:
        if x["sig"] not in seen:
            seen.add(x["sig"])
            uniq.append(x)
    return {"violations": uniq, "obs": dict(obs), "keys": sorted(keys)}


def run_case(case: dict) -> dict:
    if case.get("kind") == "pair":
        return _pair(case)
    if case.get("kind") == "buffered":
        return _buffered(case)
    if case.get("kind") == "race":
        return _race(case)
    spec = _specs("thorough" if case["spec_i"] >= 15 else "quick", case["seed"])[case["spec_i"]]
    ref = delivery_run(spec)
    obs: Counter = Counter()
    keys: set = set()
    violations = []
    rng = random.Random(case["seed"] * 17 + case["spec_i"])
    order = "fifo" if case["order"] == "fifo" else "random"
    noack = 0.25 if case["order"] == "random_noack" else 0.0
    sample = None
    for step in range(ref.steps + 1):
        run = delivery_run(spec, seed=rng.randrange(1 << 30), order=order, noack_p=noack, injections=[{"at": step, "do": "cancel"}], max_steps=ref.steps * 5 + 100)
        obs["evaluations"] += 1
        v, o, k = cancel_oracle(spec, run)
        v = oracles.attribute(v, run, "C17")
        obs.update(o)
        keys |= k
        for x in v:
            x["spec"] = spec["name"]
            x["cancel_at_step"] = step
        violations += v
        if sample is None and step == max(1, ref.steps // 2):
            sample = {"spec": spec["name"], "cancel_before_step": step, "order": case["order"], "final": {"wf": run.state["wf"], "stages": {k2: v2["status"] for k2, v2 in run.state["stages"].items()}}, "executions": len(run.ledger)}
    seen = set()
    uniq = []
    for x in violations:
        if x["sig"] not in seen:
            seen.add(x["sig"])
            uniq.append(x)
    return {"violations": uniq, "obs": dict(obs), "keys": sorted(keys), "sample": sample}

"""Check framework: case generation, sharded execution, three-valued verdicts,
known-findings classification, evidence and replay files.

A check module provides:
  ID, LEVEL ("exploration" | "fault_enumeration"), RULE (text), ASSUMPTIONS (list)
  gen_cases(tier, seed) -> list[dict]        JSON-able case descriptors
  run_case(case) -> dict                     {"violations": [{"sig", "msg", ...}],
                                              "obs": {counter: int}, "keys": [distinct non-trivial keys],
                                              "sample": optional JSON-able witness of what was observed}
  MIN_OBS: {counter: minimum}                below -> INCONCLUSIVE
Optional: WORKERS, CASE_TIMEOUT, finalize(agg) -> extra coverage keys.
"""

from __future__ import annotations

import hashlib
import importlib
import json
import os
import subprocess
import sys
import time
import traceback
from collections import Counter
from typing import Any

from . import env

KNOWN_FILE = os.path.join(env.VERIF, "known_findings.json")
EVIDENCE_DIR = os.environ.get("VERIF_EVIDENCE_DIR") or os.path.join(env.VERIF, "evidence")
REPLAY_DIR = os.environ.get("VERIF_REPLAY_DIR") or os.path.join(env.VERIF, "replays")


def load_check(cid: str):
    return importlib.import_module(f"vrig.checks.{cid.lower()}")


def load_known() -> list[dict]:
    try:
        with open(KNOWN_FILE) as f:
            return json.load(f).get("findings", [])
    except FileNotFoundError:
        return []


def case_hash(case: dict) -> str:
    return hashlib.sha1(json.dumps(case, sort_keys=True, default=str).encode()).hexdigest()[:12]


# ---------------------------------------------------------------------------
# worker side
# ---------------------------------------------------------------------------


def run_one(mod, case: dict) -> dict:
    t0 = time.time()
    try:
        res = mod.run_case(case) or {}
        res.setdefault("violations", [])
        res.setdefault("obs", {})
        res.setdefault("keys", [])
        res["harness_error"] = None
    except Exception as e:  # harness fault -> inconclusive for this case, never a violation
        res = {
            "violations": [],
            "obs": {},
            "keys": [],
            "harness_error": f"{type(e).__name__}: {e}\n{traceback.format_exc(limit=8)}",
        }
    res["wall"] = round(time.time() - t0, 4)
    return res


def worker_main(cid: str, cases_file: str, out_file: str) -> int:
    mod = load_check(cid)
    with open(cases_file) as f:
        cases = [json.loads(line) for line in f if line.strip()]
    import faulthandler

    faulthandler.enable()
    with open(out_file, "a") as out:
        for idx, case in cases:
            res = run_one(mod, case)
            res["idx"] = idx
            out.write(json.dumps(res, default=str) + "\n")
            out.flush()
    try:
        from .world import cleanup_templates

        cleanup_templates()
        env.cleanup_scratch()
    except Exception:
        pass
    return 0


# ---------------------------------------------------------------------------
# driver side
# ---------------------------------------------------------------------------


def run_check(cid: str, tier: str, seed: int, replay: str | None = None, workers: int | None = None) -> int:
    mod = load_check(cid)
    t0 = time.time()
    if replay:
        with open(replay) as f:
            data = json.load(f)
        case = data["case"] if "case" in data else data
        res = run_one(mod, case)
        print(json.dumps({k: res[k] for k in ("violations", "obs", "harness_error")}, indent=1, default=str)[:6000])
        if res["harness_error"]:
            print(f"INCONCLUSIVE property={cid} reason=harness-error-in-replay")
            return 2
        unlisted = [v for v in res["violations"] if not _known(cid, v)[0]]
        if unlisted:
            print(f"VIOLATION property={cid} replay={replay}")
            return 1
        for v in res["violations"]:
            print(f"KNOWN-FINDING: property={cid} {_known(cid, v)[1]}")
        return 0

    cases = mod.gen_cases(tier, seed)
    n = len(cases)
    nworkers = workers or int(os.environ.get("VERIF_WORKERS", "0")) or getattr(mod, "WORKERS", 0) or min(16, os.cpu_count() or 4)
    nworkers = max(1, min(nworkers, n))
    budget = float(getattr(mod, "TIMEOUT", {}).get(tier, 900 if tier == "quick" else 3600))
    tmp = os.path.join(env.scratch_dir(), f"run-{cid}-{os.getpid()}")
    os.makedirs(tmp, exist_ok=True)
    procs = []
    for wi in range(nworkers):
        shard = [(i, c) for i, c in enumerate(cases) if i % nworkers == wi]
        cf = os.path.join(tmp, f"cases-{wi}.jsonl")
        of = os.path.join(tmp, f"out-{wi}.jsonl")
        with open(cf, "w") as f:
            for item in shard:
                f.write(json.dumps(item, default=str) + "\n")
        open(of, "w").close()
        cmd = [sys.executable, os.path.join(env.VERIF, "vcheck"), cid, "--worker", cf, of]
        e = dict(os.environ)
        e["VERIF_SEED"] = str(seed)
        e["VERIF_TIER"] = tier
        e["PYTHONHASHSEED"] = "0"
        p = subprocess.Popen(cmd, env=e, stdout=subprocess.DEVNULL, stderr=open(os.path.join(tmp, f"err-{wi}.txt"), "w"))
        procs.append((p, of, len(shard), wi))
    deadline = t0 + budget
    timed_out = 0
    for p, _of, _n, _wi in procs:
        left = max(1.0, deadline - time.time())
        try:
            p.wait(timeout=left)
        except subprocess.TimeoutExpired:
            p.kill()
            timed_out += 1
    results: dict[int, dict] = {}
    worker_errs = []
    for p, of, _n, wi in procs:
        with open(of) as f:
            for line in f:
                line = line.strip()
                if line:
                    try:
                        r = json.loads(line)
                        results[r["idx"]] = r
                    except json.JSONDecodeError:
                        pass
        if p.returncode not in (0, None, -9):
            try:
                worker_errs.append(open(os.path.join(tmp, f"err-{wi}.txt")).read()[-1500:])
            except OSError:
                pass

    # aggregate ------------------------------------------------------------
    obs: Counter = Counter()
    keys: set[str] = set()
    violations: list[tuple[dict, dict]] = []
    harness_errors: list[str] = []
    samples: list[Any] = []
    for i, case in enumerate(cases):
        r = results.get(i)
        if r is None:
            continue
        for k, v in (r.get("obs") or {}).items():
            if isinstance(v, (int, float)):
                obs[k] += v
        keys.update(r.get("keys") or [])
        if r.get("harness_error"):
            harness_errors.append(r["harness_error"])
        for v in r.get("violations") or []:
            violations.append((case, v))
        if r.get("sample") is not None and len(samples) < 3:
            samples.append(r["sample"])
    missing = n - len(results)

    known_lines: dict[str, str] = {}
    unlisted: list[tuple[dict, dict]] = []
    for case, v in violations:
        ok, what = _known(cid, v)
        if ok:
            known_lines.setdefault(v.get("sig", "?"), what)
        else:
            unlisted.append((case, v))

    wall = time.time() - t0
    extra = {}
    if hasattr(mod, "finalize"):
        try:
            extra = mod.finalize({"obs": obs, "keys": keys, "results": results, "cases": cases}) or {}
        except Exception as e:
            extra = {"finalize_error": str(e)}

    # verdict ----------------------------------------------------------------
    inconclusive: list[str] = []
    for k, minimum in (getattr(mod, "MIN_OBS", {}) or {}).items():
        m = minimum.get(tier, 0) if isinstance(minimum, dict) else minimum
        if obs.get(k, 0) < m:
            inconclusive.append(f"{k}={obs.get(k, 0)}<{m}")
    if missing:
        inconclusive.append(f"cases-not-finished={missing}")
    if harness_errors:
        inconclusive.append(f"harness-errors={len(harness_errors)}")
    if len(keys) < 2:
        inconclusive.append(f"distinct_nontrivial={len(keys)}<2")

    if not samples:
        samples = [cases[0]] if cases else []
    coverage = {
        "evaluations": int(obs.get("evaluations", len(results))),
        "distinct_nontrivial": len(keys),
        "rule": getattr(mod, "RULE", ""),
        "samples": samples,
        "cases": n,
        "cases_finished": len(results),
        "observed": {k: int(v) if float(v).is_integer() else v for k, v in sorted(obs.items())},
        "known_findings_reproduced": sorted(known_lines),
        "unlisted_violations": len(unlisted),
        "harness_errors": len(harness_errors),
        "workers": nworkers,
    }
    coverage.update(extra)
    evidence = {
        "property_id": cid,
        "tier": tier,
        "seed": seed,
        "level": mod.LEVEL,
        "coverage": coverage,
        "assumptions": list(getattr(mod, "ASSUMPTIONS", [])),
        "wall_s": round(wall, 2),
        "violations": len(unlisted),
    }
    os.makedirs(EVIDENCE_DIR, exist_ok=True)
    with open(os.path.join(EVIDENCE_DIR, f"{cid}.json"), "w") as f:
        json.dump(evidence, f, indent=1, default=str)

    for sig, what in sorted(known_lines.items()):
        print(f"KNOWN-FINDING: property={cid} {what}")

    rc = 0
    if unlisted:
        os.makedirs(REPLAY_DIR, exist_ok=True)
        seen = set()
        first_path = None
        for case, v in unlisted:
            sig = v.get("sig", "?")
            if sig in seen:
                continue
            seen.add(sig)
            path = os.path.join(REPLAY_DIR, f"{cid}-{sig.replace('/', '_')}-{case_hash(case)}.json")
            with open(path, "w") as f:
                json.dump({"property": cid, "violation": v, "case": case, "seed": seed, "tier": tier}, f, indent=1, default=str)
            first_path = first_path or path
            print(f"VIOLATION property={cid} replay={path}")
            print(f"  {sig}: {str(v.get('msg'))[:400]}")
        rc = 1
    elif inconclusive:
        print(f"INCONCLUSIVE property={cid} reason={';'.join(inconclusive)}")
        for e in harness_errors[:3]:
            print("  harness error:", e[:1500])
        for e in worker_errs[:2]:
            print("  worker stderr:", e)
        rc = 2
    print(
        f"{cid} {tier} seed={seed}: cases={len(results)}/{n} evaluations={coverage['evaluations']} "
        f"distinct_nontrivial={len(keys)} violations={len(unlisted)} known={len(known_lines)} wall={wall:.1f}s"
    )
    # cleanup scratch
    try:
        import shutil

        shutil.rmtree(tmp, ignore_errors=True)
        env.cleanup_scratch()
    except Exception:
        pass
    return rc


def _known(cid: str, v: dict) -> tuple[bool, str]:
    sig = v.get("sig", "")
    for k in load_known():
        if k.get("property") == cid and k.get("status", "known") == "known" and k.get("signature") == sig:
            return True, f"{sig}: {k.get('what', '')}"
    return False, ""


def viol(sig: str, msg: str, **detail: Any) -> dict:
    d = {"sig": sig, "msg": msg}
    d.update(detail)
    return d

"""C10 - recovery sweeps: harmless on healthy workflows, idempotent after a crash."""

from __future__ import annotations

import random
from collections import Counter

from .. import crash, oracles, specs
from ..framework import viol
from ..runs import delivery_run, summarize
from . import c01, c02

ID = "C10"
LEVEL = "exploration"
RULE = (
    "(a) case = confluent workflow x delivery schedule (FIFO / shuffled with withheld acks) x EVERY step index i: a "
    "separate run with run_recovery() x1 or x2 injected before step i (plus runs with a sweep every 3rd/5th step), "
    "compared with the sweep-free reference on statuses, ancestor-derived contexts and per-task execution counts "
    "(extra messages are fine, extra effects are not). (b) for every commit-point crash snapshot: recover;recover;drain "
    "vs recover;drain under the C01 comparison. Non-trivial = sweep that pushed >= 1 message; distinct = (spec, multiset "
    "of message types the sweep pushed, step class)."
)
ASSUMPTIONS = ["SQLite backend", "confluent workflow family (outcome independent of delivery order), so runs whose schedule diverges after the injected sweep are still comparable"]
MIN_OBS = {"sweeps_injected": {"quick": 1500, "thorough": 20000}, "sweeps_that_pushed_messages": {"quick": 300, "thorough": 4000}, "double_recovery_snapshots": {"quick": 300, "thorough": 5000}}
TIMEOUT = {"quick": 800, "thorough": 3400}


def gen_cases(tier: str, seed: int) -> list[dict]:
    n = 20 if tier == "quick" else 100
    cases = [{"kind": "sweeps", "spec_i": i, "seed": seed, "order": o} for i in range(n) for o in (("fifo",) if tier == "quick" else ("fifo", "random"))]
    m = 6 if tier == "quick" else 40
    cases += [{"kind": "double", "spec_i": i * 3 % 18 if tier == "quick" else i, "seed": seed} for i in range(m)]
    return cases


def _classify(v: list[dict], run) -> list[dict]:
    if not v:
        return v
    w = oracles.recovery_started_parent_before_children(run)
    if w:
        return [viol("C10/recovery-starts-parent-tasks-before-its-before-stages-finished", f"{w}; symptoms {[x['sig'] for x in v][:5]}")]
    return oracles.attribute(v, run, "C10")


def _sweeps(case: dict) -> dict:
    spec = c01._spec_for(case["spec_i"], case["seed"])
    ref = delivery_run(spec)
    obs: Counter = Counter()
    keys: set = set()
    violations = []
    rng = random.Random(case["seed"] * 13 + case["spec_i"])
    order = case["order"]
    budget = ref.steps * 6 + 150
    sample = None
    plans = [[{"at": i, "do": "recovery", "times": t}] for i in range(ref.steps + 1) for t in (1, 2)]
    plans += [[{"at": i, "do": "recovery", "times": 1} for i in range(0, ref.steps + 1, n)] for n in (3, 5)]
    for plan in plans:
        run = delivery_run(spec, seed=rng.randrange(1 << 30), order=order, noack_p=0.0 if order == "fifo" else 0.2, injections=plan, max_steps=budget)
        obs["evaluations"] += 1
        obs["sweeps_injected"] += sum(p["times"] for p in plan)
        groups = oracles.Groups(run.commits)
        pushed = Counter()
        for a in run.audit:
            if a["kind"] == "queue" and a["op"] == "ins":
                tag = groups.tag(groups.of(a["seq"]))
                if tag and tag[0] == "Recovery":
                    pushed[a["c"]] += 1
        if pushed:
            obs["sweeps_that_pushed_messages"] += 1
            keys.add(f"{spec['name']}:{sorted(pushed.items())}:{len(plan) > 1}")
        v = c02.compare_with_reference(spec, ref, run, prop="C10")
        if any("INCONCLUSIVE" in x["sig"] for x in v):
            obs["budget_exhausted"] += 1
            continue
        v2, _ = c02.effect_oracles(spec, run, prop="C10")
        v = _classify(v + v2, run)
        for x in v:
            x.update(spec=spec["name"], plan=plan[:3])
        violations += v
        if sample is None and pushed:
            sample = {"spec": spec["name"], "sweep_before_step": plan[0]["at"], "times": plan[0]["times"], "sweep_pushed": dict(pushed), "outcome": summarize(run), "reference_executions": len(ref.ledger)}
    return {"violations": _uniq(violations), "obs": dict(obs), "keys": sorted(keys), "sample": sample}


def _double(case: dict) -> dict:
    spec = c01._spec_for(case["spec_i"], case["seed"])
    ref, snaps = crash.reference_with_snapshots(spec)
    obs: Counter = Counter()
    keys: set = set()
    violations = []
    try:
        budget = ref.steps * 4 + 60
        for k in range(1, snaps.count):
            pre = crash.pre_ledger(ref, snaps, k)
            one, _ = crash.resume(snaps.path(k), pre, recoveries=1, max_steps=budget)
            two, _ = crash.resume(snaps.path(k), pre, recoveries=2, max_steps=budget)
            obs["evaluations"] += 2
            obs["double_recovery_snapshots"] += 1
            a, b = summarize(one), summarize(two)
            v = []
            if a["wf"] != b["wf"] or a["stages"] != b["stages"]:
                v.append(viol("C10/recover-twice-differs-from-once", f"crash after commit {k}: once {a['wf']} {a['stages']} vs twice {b['wf']} {b['stages']}"))
            ca, cb = oracles.exec_counts(one.ledger), oracles.exec_counts(two.ledger)
            if ca != cb:
                v.append(viol("C10/recover-twice-changes-execution-counts", f"crash after commit {k}: { {str(x): (ca.get(x, 0), cb.get(x, 0)) for x in set(ca) | set(cb) if ca.get(x, 0) != cb.get(x, 0)} }"))
            v = _classify(v, two)
            for x in v:
                x.update(spec=spec["name"], k=k)
            violations += v
            tag = snaps.tags[k]
            keys.add(f"double:{spec['name']}:{tag[0] if tag else None}")
    finally:
        snaps.cleanup()
    return {"violations": _uniq(violations), "obs": dict(obs), "keys": sorted(keys)}


def _uniq(vs: list[dict]) -> list[dict]:
    seen = set()
    out = []
    for x in vs:
        if x["sig"] not in seen:
            seen.add(x["sig"])
            out.append(x)
    return out


def run_case(case: dict) -> dict:
    return _sweeps(case) if case["kind"] == "sweeps" else _double(case)

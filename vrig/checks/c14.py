"""C14 - transient failures: bounded number of retries, saved progress is kept."""

from __future__ import annotations

import json
import random
from collections import Counter

from .. import specs
from ..framework import viol
from ..runs import delivery_run

ID = "C14"
LEVEL = "exploration"
RULE = (
    "case = (k consecutive transient failures, k in 0..13 and 'always') x (with / without context_update) x (task first / "
    "middle / last of a 1-3 task stage) x (FIFO / shuffled delivery with withheld acks), plus polling tasks with n in "
    "0..5 polls; the same with the queue's per-row delivery limit set to 3 / 5 / 25 (the retry budget stays the documented 10); plus two transiently failing tasks in ONE stage (3-8 failures each: each task has its own budget); plus 1-8 transient failures and 1-12 polls of ONE task mixed in random order (polls must not eat the retry "
    "budget); plus the transient / polling result racing another worker's committed write to the same stage row "
    "(persistent signal being buffered) at statement granularity. The ledger gives the number of executions and the context each attempt saw. Non-trivial = k>=1 or n>=1; "
    "distinct = (kind, k, cu, position, ntasks, order class)."
)
ASSUMPTIONS = ["SQLite backend", "limit = Message.max_attempts (10); executions beyond max_attempts+1 = 11 count as a broken bound (generous to either reading of 'attempts')"]
MIN_OBS = {"transient_failures_observed": {"quick": 300, "thorough": 3000}, "polls_observed": {"quick": 50, "thorough": 500}, "mixed_scripts": {"quick": 20, "thorough": 200}, "two_flaky_stages": {"quick": 10, "thorough": 100}}
TIMEOUT = {"quick": 600, "thorough": 3000}
LIMIT = 10


def _spec(kind: str, k: int, cu: bool, pos: int, ntasks: int) -> dict:
    t = [{"kind": "ok", "out": [f"o{j}"]} for j in range(ntasks)]
    if kind == "transient":
        t[pos] = {"kind": "transient", "n": k, "cu": cu, "out": ["r_o"]}
    elif kind == "mixed":
        t[pos] = {"kind": "script", "steps": k, "out": ["r_o"]}
    else:
        t[pos] = {"kind": "poll", "n": k, "out": ["r_o"]}
    return {"name": f"{kind}{k}{'cu' if cu else ''}_p{pos}of{ntasks}", "confluent": True, "stages": [specs.st("a"), specs.st("b", ["a"], t), specs.st("c", ["b"])]}


def gen_cases(tier: str, seed: int) -> list[dict]:
    rng = random.Random(seed)
    cases = []
    reps = 4 if tier == "quick" else 40
    for rep in range(reps):
        for k in list(range(0, 14)) + [-1]:
            for cu in (True, False):
                ntasks = rng.randint(1, 3)
                pos = rng.randrange(ntasks)
                for order in ("fifo", "random"):
                    cases.append({"kind": "transient", "k": k, "cu": cu, "pos": pos, "ntasks": ntasks, "order": order, "seed": rng.randrange(1 << 30)})
        for n in range(0, 6):
            ntasks = rng.randint(1, 3)
            for order in ("fifo", "random"):
                cases.append({"kind": "poll", "k": n, "cu": False, "pos": rng.randrange(ntasks), "ntasks": ntasks, "order": order, "seed": rng.randrange(1 << 30)})
    for rep in range(reps * 6):
        # polls and transient failures of ONE task mixed in random order: polls must not eat the retry budget
        nt, npoll = rng.randint(1, 8), rng.randint(1, 12)
        steps = list("T" * nt + "R" * npoll)
        rng.shuffle(steps)
        ntasks = rng.randint(1, 3)
        cases.append({"kind": "mixed", "k": "".join(steps), "cu": True, "pos": rng.randrange(ntasks), "ntasks": ntasks, "order": rng.choice(["fifo", "random"]), "seed": rng.randrange(1 << 30)})
    for qmax in (3, 5, 25):
        # the queue's per-row DELIVERY limit is configured differently from the documented retry budget of 10
        for k in (2, 4, 6, 9, 12, -1):
            cases.append({"kind": "transient", "k": k, "cu": True, "pos": 0, "ntasks": 1, "order": "fifo", "seed": rng.randrange(1 << 30), "qmax": qmax})
    for rep in range(reps * 3):
        # several flaky tasks in ONE stage: each has its own budget (k1 + k2 may exceed the limit)
        k1, k2 = rng.randint(3, 8), rng.randint(3, 8)
        cases.append({"kind": "two_flaky", "k": [k1, k2], "cu": rng.random() < 0.5, "pos": 0, "ntasks": 2, "order": rng.choice(["fifo", "random"]), "seed": rng.randrange(1 << 30)})
    for rkind in ("transient", "poll"):
        for nth in (0, 1):
            cases.append({"kind": "race", "rkind": rkind, "k": 3, "nth": nth, "seed": seed, "sample": 60 if tier == "quick" else 2000})
    return cases


def _race(case: dict) -> dict:
    """A transient failure with saved progress while another worker commits a write to the
    same stage row (a persistent signal being buffered): the progress and the retry must
    survive the optimistic-lock conflict."""
    import os

    from .. import interleave as il
    from ..world import World

    k = case["k"]
    kind = case["rkind"]
    beh = {"kind": "transient", "n": k, "cu": True, "out": ["r_o"]} if kind == "transient" else {"kind": "poll", "n": k, "out": ["r_o"]}
    spec = {"name": f"race_{kind}{k}", "confluent": True, "stages": [specs.st("a"), specs.st("b", ["a"], [beh]), specs.st("c", ["b"])]}
    w = World()
    cut = None
    try:
        w.submit(spec)
        seen = 0
        for _ in range(200):
            rows = w.rows()
            if not rows:
                break
            ready = w.eligible(rows)
            st = w.snapshot_state()["stages"]
            if ready[0]["type"] == "RunTask" and json.loads(ready[0]["payload"]).get("stage_id") == st["b"]["id"]:
                if seen == case["nth"]:
                    w.signal("b", "note", {"id": "s"}, True)
                    rows = w.rows()
                    sig = [r for r in rows if r["type"] == "SignalStage"][0]
                    path = os.path.join(il.env.scratch_dir(), f"cut-{os.getpid()}-{random.randrange(1 << 40)}.db")
                    w.copy_db(path)
                    cut = (path, [ready[0]["id"], sig["id"]])
                    break
                seen += 1
            w.deliver(ready[0]["id"])
    finally:
        w.close()
    obs: Counter = Counter()
    keys: set = set()
    out = []
    if cut is None:
        return {"violations": [], "obs": {"cut_point_not_reached": 1}, "keys": []}
    db, rows = cut
    try:
        na, nb = il.solo_length(db, rows[0]), il.solo_length(db, rows[1])
        rng = random.Random(case["seed"] * 113 + k)
        for sc in il.bound_schedules(na, nb, 2, sample=case["sample"], rng=rng):
            run, info = il.run_pair(db, rows, il.Segments(sc), max_steps=200)
            obs["evaluations"] += 1
            if run is None:
                obs["scheduler_watchdog"] += 1
                continue
            if info["switches"]:
                obs["race_schedules_with_switch"] += 1
                keys.add(f"race:{kind}:{k}:{info['trace_hash']}")
            recs = [r for r in run.ledger if r["ref"] == "b"]
            counters = [r.get("counter") for r in recs]
            first = counters[0] if counters else 0
            if counters != list(range(first, first + len(counters))):
                out.append(viol("C14/context-update-lost" if kind == "transient" else "C14/poll-context-lost", f"attempts after the race saw progress counters {counters} (a concurrent write to the stage row raced the {kind} result); schedule {sc}"))
            b = run.state["stages"]["b"]
            if b["status"] != "SUCCEEDED" or run.state["wf"] != "SUCCEEDED":
                out.append(viol("C14/retry-did-not-complete", f"stage {b['status']} workflow {run.state['wf']} after the race; counters {counters}"))
            if "_buffered_signals" not in b["context"]:
                out.append(viol("C14/concurrent-write-lost", "the buffered signal written by the other worker is gone"))
    finally:
        os.unlink(db)
    seen_s = set()
    uniq = []
    for x in out:
        if x["sig"] not in seen_s:
            seen_s.add(x["sig"])
            uniq.append(x)
    return {"violations": uniq, "obs": dict(obs), "keys": sorted(keys)}


def _two_flaky(case: dict) -> dict:
    k1, k2 = case["k"]
    cu = case["cu"]
    t = [{"kind": "transient", "n": k1, "cu": cu, "out": ["r1"]}, {"kind": "transient", "n": k2, "cu": cu, "out": ["r2"]}, {"kind": "ok", "out": ["o3"]}]
    spec = {"name": f"twoflaky{k1}_{k2}{'cu' if cu else ''}", "confluent": True, "stages": [specs.st("a"), specs.st("b", ["a"], t), specs.st("c", ["b"])]}
    run = delivery_run(spec, seed=case["seed"], order=case["order"], noack_p=0.2 if case["order"] == "random" else 0.0, max_steps=260)
    obs: Counter = Counter({"evaluations": 1, "two_flaky_stages": 1})
    out = []
    b = run.state["stages"]["b"]
    for pos, k in ((0, k1), (1, k2)):
        recs = [r for r in run.ledger if r["ref"] == "b" and r["task"] == pos]
        obs["transient_failures_observed"] += sum(1 for r in recs if str(r.get("result", "")).startswith("raise:"))
        if len(recs) != k + 1 or b["tasks"][pos][1] != "SUCCEEDED":
            out.append(viol("C14/budget-shared-between-tasks-of-a-stage", f"tasks of one stage fail transiently {k1} and {k2} times (each below the limit of {LIMIT}): task {pos} executed {len(recs)} times (expected {k + 1}) and ended {b['tasks'][pos][1]}; stage {b['status']}, workflow {run.state['wf']}"))
    if run.state["wf"] != "SUCCEEDED" and not out:
        out.append(viol("C14/retry-did-not-complete", f"workflow {run.state['wf']}, stage b {b}"))
    return {"violations": out, "obs": dict(obs), "keys": [f"twoflaky:{k1}:{k2}:{cu}:{case['order']}"]}


def run_case(case: dict) -> dict:
    if case.get("kind") == "race":
        return _race(case)
    if case.get("kind") == "two_flaky":
        return _two_flaky(case)
    spec = _spec(case["kind"], case["k"], case["cu"], case["pos"], case["ntasks"])
    k = case["k"]
    noack = 0.25 if case["order"] == "random" else 0.0
    world = None
    if case.get("qmax"):
        from ..world import World

        world = World(max_attempts=case["qmax"])
    inj = None
    if case["seed"] % 3 == 0 and not case.get("qmax"):
        # a healthy recovery sweep before every delivery, i.e. also while a retry / re-poll waits for its back-off:
        # sweeps must not add attempts
        inj = [{"at": s_, "do": "recovery"} for s_ in range(0, 300)]
    run = delivery_run(spec, seed=case["seed"], order=case["order"], noack_p=noack, max_steps=(140 if case["kind"] != "mixed" else 260) * (5 if inj else 1), world=world, injections=inj)
    obs: Counter = Counter({"evaluations": 1})
    if inj:
        obs["runs_with_sweeps_during_backoff"] += 1
        if run.budget_exhausted:
            # every sweep may push (harmless) nudges that cost deliveries: a run that did not drain within the
            # step budget decides nothing
            obs["budget_exhausted"] += 1
            return {"violations": [], "obs": dict(obs), "keys": []}
    out = []
    recs = [r for r in run.ledger if r["ref"] == "b" and r["task"] == case["pos"]]
    n = len(recs)
    b = run.state["stages"]["b"]
    tstatus = b["tasks"][case["pos"]][1]
    if case["kind"] == "transient":
        fails = sum(1 for r in recs if str(r.get("result", "")).startswith("raise:"))
        obs["transient_failures_observed"] += fails
        if n > LIMIT + 1:
            out.append(viol("C14/retry-limit-not-enforced", f"task failing transiently ({'always' if k < 0 else k} times) was executed {n} times (> max_attempts+1 = {LIMIT + 1}); final task status {tstatus}, stage {b['status']}, workflow {run.state['wf']}"))
        elif k < 0 or k >= LIMIT + 1:
            if not (tstatus == "TERMINAL" and b["status"] == "TERMINAL" and run.state["wf"] == "TERMINAL"):
                out.append(viol("C14/limit-reached-but-not-terminal", f"{n} executions, task {tstatus}, stage {b['status']}, workflow {run.state['wf']}"))
            obs["limit_reached"] += 1
        if 0 <= k < LIMIT - 1:
            if n != k + 1:
                out.append(viol("C14/wrong-execution-count", f"{k} transient failures then success: executed {n} times, expected {k + 1}"))
            if not (tstatus == "SUCCEEDED" and run.state["wf"] == "SUCCEEDED"):
                out.append(viol("C14/retry-did-not-complete", f"task {tstatus}, workflow {run.state['wf']} after {n} executions (quiescent={run.quiescent})"))
        if case["cu"]:
            counters = [r.get("counter") for r in recs]
            if counters != list(range(len(counters))):
                out.append(viol("C14/context-update-lost", f"attempt i must see the progress of attempt i-1: saw counters {counters}"))
            for i, r in enumerate(recs[1:], 1):
                if r["ctx"].get(f"_xv{case['pos']}") != f"b.try{case['pos']}@0.{i}":
                    out.append(viol("C14/context-update-lost", f"attempt {i} saw marker {r['ctx'].get('_xv' + str(case['pos']))}"))
                    break
    elif case["kind"] == "mixed":
        steps = k
        nt = steps.count("T")
        obs["transient_failures_observed"] += sum(1 for r in recs if str(r.get("result", "")).startswith("raise:"))
        obs["polls_observed"] += steps.count("R")
        obs["mixed_scripts"] += 1
        # nt <= 8 transient failures are below the documented maximum whatever the number of polls in between
        if n != len(steps) + 1:
            out.append(viol("C14/wrong-execution-count:polls-and-failures-mixed", f"script {steps} ({nt} transient failures, {steps.count('R')} polls) then success: executed {n} times, expected {len(steps) + 1}; task {tstatus}, workflow {run.state['wf']}"))
        if not (tstatus == "SUCCEEDED" and run.state["wf"] == "SUCCEEDED"):
            out.append(viol("C14/retry-did-not-complete:polls-and-failures-mixed", f"script {steps}: task {tstatus}, workflow {run.state['wf']} after {n} executions (quiescent={run.quiescent})"))
        counters = [r.get("counter") for r in recs]
        if counters != list(range(len(counters))):
            out.append(viol("C14/context-update-lost", f"step i must see the progress of step i-1: saw counters {counters}"))
    else:
        obs["polls_observed"] += max(0, n - 1)
        if n != k + 1:
            out.append(viol("C14/poll-count-wrong", f"polling task with {k} polls executed {n} times"))
        counters = [r.get("counter") for r in recs]
        if counters != list(range(len(counters))):
            out.append(viol("C14/poll-context-lost", f"poll i must see the context saved by poll i-1: saw counters {counters}"))
        for i, r in enumerate(recs[1:], 1):
            if r["ctx"].get(f"_pv{case['pos']}") != f"b.poll{case['pos']}@0.{i}":
                out.append(viol("C14/poll-context-lost", f"poll {i} saw marker {r['ctx'].get('_pv' + str(case['pos']))}"))
                break
        if not (tstatus == "SUCCEEDED" and run.state["wf"] == "SUCCEEDED"):
            out.append(viol("C14/poll-did-not-complete", f"task {tstatus}, workflow {run.state['wf']}"))
    # tasks after the retried one run exactly once, tasks before it are not re-run
    for j in range(case["ntasks"]):
        if j != case["pos"]:
            c = sum(1 for r in run.ledger if r["ref"] == "b" and r["task"] == j)
            if j < case["pos"] or tstatus == "SUCCEEDED":
                if c != 1:
                    out.append(viol("C14/sibling-task-count", f"task {j} of the stage executed {c} times, expected 1"))
            else:
                # tasks after a terminally failed one: the statement is silent (CompleteTaskHandler
                # starts the next task whatever the outcome); observed, not judged - but never twice
                obs["tasks_run_after_terminal_sibling"] += c
                if c > 1:
                    out.append(viol("C14/sibling-task-count", f"task {j} of the stage executed {c} times"))
    keys = []
    if case["kind"] == "mixed":
        keys.append(f"mixed:{k.count('T')}:{k.count('R')}:{case['pos']}/{case['ntasks']}:{case['order']}")
    elif k != 0:
        keys.append(f"{case['kind']}:{k}:{case['cu']}:{case['pos']}/{case['ntasks']}:{case['order']}")
    sample = {"case": case, "executions": n, "task": tstatus, "workflow": run.state["wf"], "attempt_counters": [r.get("counter") for r in recs][:14]}
    return {"violations": out, "obs": dict(obs), "keys": keys, "sample": sample if k == 3 else None}

"""Process environment for every check.  Must be imported (and setup() called)
before anything from `stabilize` is imported: handler / sqlite configuration
singletons read the environment on first use."""

from __future__ import annotations

import os
import sys
import time

VERIF = os.path.dirname(os.path.dirname(os.path.abspath(__file__)))
REPO = os.environ.get("VERIF_REPO", "/repo")
SRC = os.path.join(REPO, "src")
DEPS = os.path.join(VERIF, ".deps")

_DEFAULTS = {
    "TZ": "UTC",
    "PYTHONDONTWRITEBYTECODE": "1",
    "STABILIZE_SQLITE_SYNCHRONOUS": "OFF",
    "STABILIZE_SQLITE_MMAP_SIZE_MB": "0",
    "STABILIZE_SQLITE_CACHE_SIZE_KB": "2000",
    "STABILIZE_HANDLER_MIN_DELAY_MS": "1",
    "STABILIZE_HANDLER_MAX_DELAY_MS": "2",
    "STABILIZE_ERROR_MIN_DELAY_MS": "1",
    "STABILIZE_ERROR_MAX_DELAY_MS": "2",
    "STABILIZE_MAX_STAGE_WAIT_RETRIES": "6",
    "STABILIZE_VERIF": "1",
}

_done = False


def setup(extra: dict[str, str] | None = None) -> None:
    global _done
    if _done:
        return
    for k, v in _DEFAULTS.items():
        os.environ.setdefault(k, v)
    if extra:
        os.environ.update(extra)
    os.environ["TZ"] = "UTC"
    time.tzset()
    sys.dont_write_bytecode = True
    # the working tree of the repository, always first
    if SRC in sys.path:
        sys.path.remove(SRC)
    sys.path.insert(0, SRC)
    if os.path.isdir(DEPS) and DEPS not in sys.path:
        sys.path.append(DEPS)
    import logging

    logging.disable(logging.CRITICAL)
    import stabilize  # noqa: F401

    got = os.path.realpath(os.path.dirname(stabilize.__file__))
    want = os.path.realpath(os.path.join(SRC, "stabilize"))
    if got != want:
        raise RuntimeError(f"stabilize imported from {got}, expected {want}")
    _done = True


def scratch_dir(private: bool = True) -> str:
    """Scratch directory; private=True gives a per-process subdirectory (journal
    files of many workers in one tmpfs directory contend on the directory lock)."""
    for d in ("/dev/shm", os.environ.get("TMPDIR") or "/tmp"):
        if os.path.isdir(d) and os.access(d, os.W_OK):
            p = os.path.join(d, "vrig", f"p{os.getpid()}") if private else os.path.join(d, "vrig")
            os.makedirs(p, exist_ok=True)
            return p
    raise RuntimeError("no scratch directory")


def cleanup_scratch() -> None:
    import shutil

    for d in ("/dev/shm", os.environ.get("TMPDIR") or "/tmp"):
        p = os.path.join(d, "vrig", f"p{os.getpid()}")
        if os.path.isdir(p):
            shutil.rmtree(p, ignore_errors=True)


def seed() -> int:
    try:
        return int(os.environ.get("VERIF_SEED", "0"))
    except ValueError:
        return 0

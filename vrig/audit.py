"""Audit triggers: the durable-truth monitor.

All triggers write into one table `verif_log` whose AUTOINCREMENT `seq` totally
orders every durable change.  Rows written by a transaction that is rolled back
vanish with it, so the log only ever shows durable changes.

Columns by kind:
  status : op in (wf, stage, task, wf_ins, stage_ins, task_ins)
           a=id  b=owner (execution_id / stage_id)  c=old  d=new  e=version  f=ref_id / name
  cancel : a=execution id  c=old flag  d=new flag
  queue  : op in (ins, upd, del)  a=row id  b=message uuid  c=type  d=payload
           e=attempts  f=locked_until  g=deliver_at  h=version
  dlq    : op in (ins, del)       a=dlq id  b=message uuid  c=type  d=payload  e=attempts  f=original_id
  mark   : op=ins/del  a=message_id  b=handler_type  c=execution_id
  claim  : op in (ins, upd, del)  a=execution  b=key  c=stage_id  d=old stage_id
  event  : a=sequence  b=event_type  c=entity_type  d=entity_id  e=workflow_id  f=data
  sdata  : (optional) stage context/outputs rewrite  a=id  c=version  d=context  e=outputs
"""

from __future__ import annotations

DDL = """
CREATE TABLE IF NOT EXISTS verif_log (
    seq INTEGER PRIMARY KEY AUTOINCREMENT,
    kind TEXT NOT NULL, op TEXT,
    a TEXT, b TEXT, c TEXT, d TEXT, e TEXT, f TEXT, g TEXT, h TEXT
);

CREATE TRIGGER IF NOT EXISTS verif_wf_ins AFTER INSERT ON pipeline_executions BEGIN
  INSERT INTO verif_log(kind, op, a, b, c, d) VALUES ('status', 'wf_ins', NEW.id, NULL, NULL, NEW.status);
END;
CREATE TRIGGER IF NOT EXISTS verif_wf_upd AFTER UPDATE OF status ON pipeline_executions
WHEN OLD.status IS NOT NEW.status BEGIN
  INSERT INTO verif_log(kind, op, a, b, c, d) VALUES ('status', 'wf', NEW.id, NULL, OLD.status, NEW.status);
END;
CREATE TRIGGER IF NOT EXISTS verif_wf_cancel AFTER UPDATE OF is_canceled ON pipeline_executions
WHEN OLD.is_canceled IS NOT NEW.is_canceled BEGIN
  INSERT INTO verif_log(kind, op, a, c, d) VALUES ('cancel', 'upd', NEW.id, OLD.is_canceled, NEW.is_canceled);
END;

CREATE TRIGGER IF NOT EXISTS verif_stage_ins AFTER INSERT ON stage_executions BEGIN
  INSERT INTO verif_log(kind, op, a, b, c, d, e, f, g)
  VALUES ('status', 'stage_ins', NEW.id, NEW.execution_id, NULL, NEW.status, NEW.version, NEW.ref_id, NEW.parent_stage_id);
END;
CREATE TRIGGER IF NOT EXISTS verif_stage_upd AFTER UPDATE OF status ON stage_executions
WHEN OLD.status IS NOT NEW.status BEGIN
  INSERT INTO verif_log(kind, op, a, b, c, d, e, f)
  VALUES ('status', 'stage', NEW.id, NEW.execution_id, OLD.status, NEW.status, NEW.version, NEW.ref_id);
END;

CREATE TRIGGER IF NOT EXISTS verif_task_ins AFTER INSERT ON task_executions BEGIN
  INSERT INTO verif_log(kind, op, a, b, c, d, e, f)
  VALUES ('status', 'task_ins', NEW.id, NEW.stage_id, NULL, NEW.status, NEW.version, NEW.name);
END;
CREATE TRIGGER IF NOT EXISTS verif_task_upd AFTER UPDATE OF status ON task_executions
WHEN OLD.status IS NOT NEW.status BEGIN
  INSERT INTO verif_log(kind, op, a, b, c, d, e, f)
  VALUES ('status', 'task', NEW.id, NEW.stage_id, OLD.status, NEW.status, NEW.version, NEW.name);
END;

CREATE TRIGGER IF NOT EXISTS verif_q_ins AFTER INSERT ON queue_messages BEGIN
  INSERT INTO verif_log(kind, op, a, b, c, d, e, f, g, h)
  VALUES ('queue', 'ins', NEW.id, NEW.message_id, NEW.message_type, NEW.payload, NEW.attempts, NEW.locked_until, NEW.deliver_at, NEW.version);
END;
CREATE TRIGGER IF NOT EXISTS verif_q_upd AFTER UPDATE ON queue_messages BEGIN
  INSERT INTO verif_log(kind, op, a, b, c, d, e, f, g, h)
  VALUES ('queue', 'upd', NEW.id, NEW.message_id, NEW.message_type, NULL, NEW.attempts, NEW.locked_until, NEW.deliver_at, NEW.version);
END;
CREATE TRIGGER IF NOT EXISTS verif_q_del AFTER DELETE ON queue_messages BEGIN
  INSERT INTO verif_log(kind, op, a, b, c, d, e, f, g, h)
  VALUES ('queue', 'del', OLD.id, OLD.message_id, OLD.message_type, NULL, OLD.attempts, OLD.locked_until, OLD.deliver_at, OLD.version);
END;

CREATE TRIGGER IF NOT EXISTS verif_dlq_ins AFTER INSERT ON queue_messages_dlq BEGIN
  INSERT INTO verif_log(kind, op, a, b, c, d, e, f)
  VALUES ('dlq', 'ins', NEW.id, NEW.message_id, NEW.message_type, NEW.payload, NEW.attempts, NEW.original_id);
END;
CREATE TRIGGER IF NOT EXISTS verif_dlq_del AFTER DELETE ON queue_messages_dlq BEGIN
  INSERT INTO verif_log(kind, op, a, b, c, d, e, f)
  VALUES ('dlq', 'del', OLD.id, OLD.message_id, OLD.message_type, OLD.payload, OLD.attempts, OLD.original_id);
END;

CREATE TRIGGER IF NOT EXISTS verif_mark_ins AFTER INSERT ON processed_messages BEGIN
  INSERT INTO verif_log(kind, op, a, b, c) VALUES ('mark', 'ins', NEW.message_id, NEW.handler_type, NEW.execution_id);
END;
CREATE TRIGGER IF NOT EXISTS verif_mark_del AFTER DELETE ON processed_messages BEGIN
  INSERT INTO verif_log(kind, op, a, b, c) VALUES ('mark', 'del', OLD.message_id, OLD.handler_type, OLD.execution_id);
END;

CREATE TRIGGER IF NOT EXISTS verif_claim_ins AFTER INSERT ON stage_claims BEGIN
  INSERT INTO verif_log(kind, op, a, b, c) VALUES ('claim', 'ins', NEW.execution_id, NEW.claim_key, NEW.stage_id);
END;
CREATE TRIGGER IF NOT EXISTS verif_claim_upd AFTER UPDATE ON stage_claims BEGIN
  INSERT INTO verif_log(kind, op, a, b, c, d) VALUES ('claim', 'upd', NEW.execution_id, NEW.claim_key, NEW.stage_id, OLD.stage_id);
END;
CREATE TRIGGER IF NOT EXISTS verif_claim_del AFTER DELETE ON stage_claims BEGIN
  INSERT INTO verif_log(kind, op, a, b, c) VALUES ('claim', 'del', OLD.execution_id, OLD.claim_key, OLD.stage_id);
END;
"""

EVENT_DDL = """
CREATE TRIGGER IF NOT EXISTS verif_event_ins AFTER INSERT ON events BEGIN
  INSERT INTO verif_log(kind, op, a, b, c, d, e, f)
  VALUES ('event', 'ins', NEW.sequence, NEW.event_type, NEW.entity_type, NEW.entity_id, NEW.workflow_id, NEW.data);
END;
"""

SDATA_DDL = """
CREATE TRIGGER IF NOT EXISTS verif_sdata_upd AFTER UPDATE ON stage_executions BEGIN
  INSERT INTO verif_log(kind, op, a, c, d, e)
  VALUES ('sdata', 'upd', NEW.id, NEW.version, NEW.context, NEW.outputs);
END;
"""


def install(conn, events: bool = True, sdata: bool = False) -> None:
    conn.executescript(DDL)
    if events:
        conn.executescript(EVENT_DDL)
    if sdata:
        conn.executescript(SDATA_DDL)
    conn.commit()


COLS = ("seq", "kind", "op", "a", "b", "c", "d", "e", "f", "g", "h")


def read(conn, since: int = 0) -> list[dict]:
    cur = conn.execute(
        "SELECT seq, kind, op, a, b, c, d, e, f, g, h FROM verif_log WHERE seq > ? ORDER BY seq", (since,)
    )
    return [dict(zip(COLS, r)) for r in cur.fetchall()]

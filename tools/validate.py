#!/opt/veriftools/pyvenv/bin/python
import glob, json, sys
import jsonschema
m = json.load(open('/verif/MANIFEST.json')); s = json.load(open('/root/.vp/MANIFEST.schema.json'))
jsonschema.validate(m, s); print('manifest valid:', len(m['checks']), 'checks', len(m.get('not_applicable', [])), 'n/a')
es = json.load(open('/root/.vp/EVIDENCE.schema.json'))
bad = 0
for f in sorted(glob.glob('/verif/evidence/*.json')):
    try:
        jsonschema.validate(json.load(open(f)), es); print(f, 'valid')
    except Exception as e:
        bad += 1; print(f, 'INVALID', str(e)[:300])
sys.exit(1 if bad else 0)

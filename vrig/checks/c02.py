"""C02 - redelivery and reordering never change the result or repeat finished work."""

from __future__ import annotations

import random
from collections import Counter

from .. import oracles, specs
from ..framework import viol
from ..runs import delivery_run, summarize

ID = "C02"
LEVEL = "exploration"
RULE = (
    "case = (workflow spec from the confluent family or a random confluent DAG) x (delivery schedule: seeded random / LIFO "
    "order over the rows deliverable at the current virtual time, ack withheld with p in {0,.15,.3,.4} and the message "
    "redelivered later (<=2 times), one message of a chosen type held back k steps, duplicate StartStage injected); "
    "every case is compared with its own FIFO exactly-once reference run. Non-trivial = the delivered sequence of "
    "(message type, target) differs from the reference's; distinct = by hash of that sequence."
)
ASSUMPTIONS = [
    "SQLite backend, one database file for store+queue",
    "virtual time: delayed rows are delivered only when no undelayed row is pending (no wait budget is exhausted artificially)",
    "duplicates arise only the way the queue produces them (ack lost / lock lapsed), never by cloning rows",
]
MIN_OBS = {"redeliveries": {"quick": 50, "thorough": 500}, "reordered_runs": {"quick": 50, "thorough": 500}}
TIMEOUT = {"quick": 600, "thorough": 3000}

HOLD_TYPES = ["StartStage", "CompleteStage", "CompleteTask", "RunTask", "StartTask", "JumpToStage", "CompleteWorkflow"]


def _spec_for(i: int, seed: int) -> dict:
    fam = specs.CONFLUENT_FAMILY
    if i < len(fam):
        return fam[i]()
    rng = random.Random(seed * 7919 + i)
    for _ in range(50):
        sp = specs.random_dag(rng, max_stages=6)
        if sp["confluent"]:
            sp["name"] = f"rand{seed}_{i}"
            return sp
    return specs.diamond()


def gen_cases(tier: str, seed: int) -> list[dict]:
    nspecs = 40 if tier == "quick" else 150
    nsched = 25 if tier == "quick" else 120
    cases = []
    for i in range(nspecs):
        cases.append({"spec_i": i, "seed": seed, "nsched": nsched})
    return cases


def _schedules(case: dict, ref_types: list[str]) -> list[dict]:
    rng = random.Random(case["seed"] * 1000003 + case["spec_i"])
    out = []
    n = case["nsched"]
    for j in range(n):
        kind = j % 5
        s: dict = {"seed": rng.randrange(1 << 30)}
        if kind == 0:
            s.update(order="random", noack_p=0.0)
        elif kind == 1:
            s.update(order="random", noack_p=rng.choice([0.15, 0.3, 0.4]))
        elif kind == 2:
            s.update(order="lifo", noack_p=rng.choice([0.0, 0.2]))
        elif kind == 3:
            ty = rng.choice([t for t in HOLD_TYPES if t in ref_types] or ["StartStage"])
            s.update(order=rng.choice(["fifo", "random"]), noack_p=0.1, hold={"type": ty, "nth": rng.randrange(0, max(1, ref_types.count(ty))), "steps": rng.choice([3, 8, 20, 60])})
        else:
            s.update(order="random", noack_p=0.2, dup=True)
        out.append(s)
    return out


def _seqkey(run) -> tuple:
    return tuple((h.get("type"), h.get("ack")) for h in run.handled)


def compare_with_reference(spec: dict, ref, run, prop: str = "C02", data: bool = True) -> list[dict]:
    out = []
    if run.budget_exhausted or not run.quiescent:
        return [viol(f"{prop}/INCONCLUSIVE-budget", "step budget exhausted before quiescence")]
    a, b = summarize(ref), summarize(run)
    if a["wf"] != b["wf"] or a["stages"] != b["stages"]:
        out.append(viol(f"{prop}/outcome-differs", f"reference {a['wf']} {a['stages']} vs {b['wf']} {b['stages']}"))
    rc, tc = oracles.exec_counts(ref.ledger), oracles.exec_counts(run.ledger)
    if rc != tc:
        diff = {str(k): (rc.get(k, 0), tc.get(k, 0)) for k in set(rc) | set(tc) if rc.get(k, 0) != tc.get(k, 0)}
        more = any(v[1] > v[0] for v in diff.values())
        out.append(viol(f"{prop}/execution-count-differs:{'extra' if more else 'missing'}", f"(ref,task,iter)->(reference,run): {diff}"))
    if data:
        early = specs.early_join_refs(spec)
        okeys = oracles.output_keys(spec)

        def views(ledger):
            v = {}
            for r in ledger:
                if r["ref"] in early or "<" in r["ref"]:
                    continue
                keys = set()
                for anc in specs.ancestors(spec, r["ref"]):
                    keys |= okeys.get(anc, set())
                v.setdefault((r["ref"], r["task"], r["iter"]), []).append(oracles.anc_view(r["ctx"], keys))
            return v

        va, vb = views(ref.ledger), views(run.ledger)
        for k in va:
            if k in vb and va[k] != vb[k] and len(va[k]) == len(vb[k]):
                out.append(viol(f"{prop}/upstream-data-differs", f"{k}: reference saw {va[k]} run saw {vb[k]}"))
                break
    return out


def effect_oracles(spec: dict, run, prop: str = "C02") -> tuple[list[dict], Counter]:
    """(b) at most one start per stage per iteration; (c) no execution after the
    task's completion is durable; (d) marked messages are not handled again."""
    out = []
    obs: Counter = Counter()
    for sid, per_iter in oracles.starts_per_iteration(run.audit).items():
        for it, n in enumerate(per_iter):
            if n > 1:
                out.append(viol(f"{prop}/stage-started-twice", f"stage {sid} iteration {it}: {n} NOT_STARTED->RUNNING rows"))
    tl = oracles.Timeline(run.audit)
    tasks_by_stage: dict[tuple, str] = {}
    for eid, m in tl.meta.items():
        if m["kind"] == "task":
            tasks_by_stage[(m["owner"], m["name"])] = eid
    for r in run.ledger:
        tid = tasks_by_stage.get((r["stage_id"], f"t{r['task']}"))
        if tid is None:
            continue
        stt = tl.at(tid, r["seq"])
        obs["ledger_checked"] += 1
        if stt in oracles.COMPLETE:
            out.append(viol(f"{prop}/executed-after-completion", f"{r['ref']}.t{r['task']} executed (ord {r['ord']}) while durably {stt}"))
    # (d) dedup
    mark_seq = {}
    for a in run.audit:
        if a["kind"] == "mark" and a["op"] == "ins":
            mark_seq.setdefault(a["a"], a["seq"])
    groups = oracles.Groups(run.commits)
    for h in run.handled:
        mid = h.get("polled")
        if mid is None:
            continue
        c0 = h["commits"][0]
        claim_seq = groups.maxes[c0] if c0 < len(groups.maxes) else 1 << 60
        if mid in mark_seq and mark_seq[mid] <= claim_seq:
            obs["marked_redeliveries"] += 1
            if h.get("handled"):
                out.append(viol(f"{prop}/handled-although-marked", f"{h['type']} row {mid} was handled again after its processed mark was durable"))
    return out, obs


def run_case(case: dict) -> dict:
    spec = _spec_for(case["spec_i"], case["seed"])
    ref = delivery_run(spec, order="fifo")
    obs: Counter = Counter()
    violations: list[dict] = []
    keys: set[str] = set()
    v, o = effect_oracles(spec, ref)
    violations += v
    if not ref.quiescent:
        return {"violations": [], "obs": {"reference_not_quiescent": 1}, "keys": []}
    ref_types = [h.get("type") for h in ref.handled]
    ref_key = _seqkey(ref)
    budget = ref.steps * 5 + 80
    sample = None
    for s in _schedules(case, ref_types):
        inj = None
        if s.get("dup"):
            rng = random.Random(s["seed"])
            refs = [x["ref"] for x in spec["stages"]]
            inj = [{"at": rng.randrange(1, max(2, ref.steps)), "do": "dup_start", "ref": rng.choice(refs)} for _ in range(2)]
        run = delivery_run(spec, seed=s["seed"], order=s["order"], noack_p=s.get("noack_p", 0.0), hold=s.get("hold"), injections=inj, max_steps=budget)
        obs["evaluations"] += 1
        obs["deliveries"] += run.steps
        obs["redeliveries"] += sum(1 for h in run.handled if h.get("ack") is False)
        obs["executions"] += len(run.ledger)
        vs = compare_with_reference(spec, ref, run)
        inconc = [x for x in vs if "INCONCLUSIVE" in x["sig"]]
        if inconc:
            obs["budget_exhausted"] += 1
            continue
        v2, o2 = effect_oracles(spec, run)
        obs.update(o2)
        for x in oracles.attribute(vs + v2, run, "C02"):
            x["schedule"] = s
            x["spec"] = spec["name"]
            violations.append(x)
        k = _seqkey(run)
        if k != ref_key:
            obs["reordered_runs"] += 1
            keys.add(f"{spec['name']}:{hash(k) & 0xFFFFFFFF:x}")
        if sample is None and k != ref_key:
            sample = {"spec": spec["name"], "schedule": s, "delivered": [f"{h.get('type')}{'' if h.get('ack') else '(no ack)'}" for h in run.handled][:60], "outcome": summarize(run)}
    return {"violations": violations[:20], "obs": dict(obs), "keys": sorted(keys), "sample": sample}

"""C20 - graph validation and condition expressions are sound and total."""

from __future__ import annotations

import copy
import random
import sys
from collections import Counter

from .. import specs
from ..framework import viol
from ..runs import delivery_run

ID = "C20"
LEVEL = "exploration"
RULE = (
    "(a) stage graphs: seeded generator of valid DAGs (<= 9 stages) and of each invalidity class alone and combined "
    "(duplicate ref, self edge, unknown ref, 2..n cycles, cycles behind a valid prefix, synthetic children present); "
    "Workflow.create must succeed iff an independent reference validator (unique refs, no self edge, all refs known, "
    "acyclic by DFS) accepts, and may raise only InvalidStageGraphError / CircularDependencyError; topological_sort of "
    "every accepted graph is checked by a postcondition (permutation of the top-level stages, every stage after all its "
    "requisites); the engine's second computed order - the order in which the store merges a starting stage's ancestors "
    "(its own sort in persistence/sqlite/queries.py), made observable by list outputs - is held to the same postcondition "
    "for every stage of a quarter of the accepted graphs. (b) expressions: seeded grammar covering every ast node the evaluator names and unsupported ones "
    "(calls, lambdas, comprehensions, f-strings, walrus, starred, slices, binary ops, dict / set displays, await / yield), "
    "every comparison / boolean / unary operator over operands {None, bool, int, float, str, list, tuple, dict, nested, "
    "missing name}, attribute / subscript chains, garbage / unicode / empty strings, nesting depth <= 40, against random "
    "JSON contexts. Oracle: returns a value or raises ExpressionError and nothing else; context unchanged (deep copy); "
    "a sys.addaudithook monitor sees no event other than the `compile` of ast.parse (no exec / import / open / os.* / "
    "subprocess.* / socket.*). (c) the same expressions as OR-split conditions / stageEnabled in a running workflow "
    "must not end the deciding stage TERMINAL, and the stored context of the guarded stage - which carries a dict-valued key "
    "named like an upstream stage - is what was submitted (no side effect of the evaluation). Non-trivial = graph with >= 2 stages / expression that parses; distinct "
    "= (validity classes) / (top-level ast node, operator, operand types, outcome class)."
)
ASSUMPTIONS = ["nesting depth of generated expressions <= 40 (deeper inputs hit CPython's recursion limit, outside what the property's 'grammar' calls for)", "contexts are JSON-representable values"]
MIN_OBS = {"graphs_checked": {"quick": 3000, "thorough": 100000}, "expressions_checked": {"quick": 20000, "thorough": 1000000}, "audit_events_seen": {"quick": 20000, "thorough": 600000}, "merge_orders_checked": {"quick": 500, "thorough": 5000}}
TIMEOUT = {"quick": 800, "thorough": 3400}


def gen_cases(tier: str, seed: int) -> list[dict]:
    ng, ne, nw = (16, 32, 8) if tier == "quick" else (160, 320, 40)
    cases = [{"kind": "graphs", "i": i, "seed": seed, "n": 200 if tier == "quick" else 650} for i in range(ng)]
    cases += [{"kind": "expr", "i": i, "seed": seed, "n": 700 if tier == "quick" else 3200} for i in range(ne)]
    cases += [{"kind": "engine", "i": i, "seed": seed, "n": 12 if tier == "quick" else 40} for i in range(nw)]
    return cases


# ---------------------------------------------------------------------------
# (a) graphs
# ---------------------------------------------------------------------------


def _gen_graph(rng: random.Random) -> tuple[list[tuple[str, list[str], bool]], set[str]]:
    """Returns [(ref, requisites, synthetic)], injected defect classes."""
    n = rng.randint(1, 9)
    refs = [f"s{i}" for i in range(n)]
    if rng.random() < 0.25:
        # unusual but legal reference strings: the empty string (the model's default), whitespace, unicode, a name
        # that differs from another only by case
        odd = ["", " ", "S0", "s\u00e9", "0", "s0 "]
        for i in rng.sample(range(n), min(n, rng.randint(1, 2))):
            cand = rng.choice(odd)
            if cand not in refs:
                refs[i] = cand
    g = []
    for i, r in enumerate(refs):
        req = sorted(rng.sample(refs[:i], min(rng.choice([0, 1, 1, 2, 3]), i)))
        g.append([r, req, False])
    classes: set[str] = set()
    for _ in range(rng.choice([0, 0, 0, 1, 1, 2, 3])):
        d = rng.choice(["dup", "self", "unknown", "cycle", "cycle_tail", "synthetic"])
        if d == "dup" and n >= 1:
            src = rng.choice(g)
            g.insert(rng.randrange(len(g) + 1), [src[0], list(rng.choice(g)[1]), False])
        elif d == "self":
            s = rng.choice(g)
            s[1] = sorted(set(s[1]) | {s[0]})
        elif d == "unknown":
            s = rng.choice(g)
            s[1] = sorted(set(s[1]) | {rng.choice(["ghost", "S0", "s99", ""])})
        elif d == "cycle" and n >= 2:
            k = rng.randint(2, n)
            cyc = rng.sample(range(len(g)), min(k, len(g)))
            for a, b in zip(cyc, cyc[1:] + cyc[:1]):
                g[b][1] = sorted(set(g[b][1]) | {g[a][0]})
        elif d == "cycle_tail" and n >= 3:
            a, b = sorted(rng.sample(range(1, len(g)), 2)) if len(g) > 2 else (0, 1)
            g[a][1] = sorted(set(g[a][1]) | {g[b][0]})
            g[b][1] = sorted(set(g[b][1]) | {g[a][0]})
        elif d == "synthetic":
            g.append([f"syn{len(g)}", [rng.choice(["ghost2", refs[0]])], True])
        classes.add(d)
    rng.shuffle(g) if rng.random() < 0.5 else None
    return [(r, list(q), syn) for r, q, syn in g], classes


def reference_validate(g: list[tuple[str, list[str], bool]]) -> str | None:
    """Independent validator. None = acceptable, else the defect class."""
    top = [(r, q) for r, q, syn in g if not syn]
    refs = [r for r, _ in top]
    if len(set(refs)) != len(refs):
        return "dup"
    known = set(refs)
    for r, q in top:
        if r in q:
            return "self"
    for r, q in top:
        if any(x not in known for x in q):
            return "unknown"
    # acyclic by DFS (three colours)
    adj = {r: list(q) for r, q in top}
    colour: dict[str, int] = {}

    def dfs(u: str) -> bool:
        colour[u] = 1
        for v in adj[u]:
            c = colour.get(v, 0)
            if c == 1 or (c == 0 and dfs(v)):
                return True
        colour[u] = 2
        return False

    for r in refs:
        if colour.get(r, 0) == 0 and dfs(r):
            return "cycle"
    return None


def _graphs(case: dict) -> dict:
    from stabilize.dag.topological import CircularDependencyError, InvalidStageGraphError, topological_sort
    from stabilize.models.stage import StageExecution, SyntheticStageOwner
    from stabilize.models.workflow import Workflow

    rng = random.Random(case["seed"] * 101 + case["i"])
    obs: Counter = Counter()
    keys: set = set()
    out = []
    sample = None
    for _ in range(case["n"]):
        g, classes = _gen_graph(rng)
        stages = []
        for r, q, syn in g:
            s = StageExecution(ref_id=r, name=r, type="noop", requisite_stage_ref_ids=set(q))
            if syn:
                s.parent_stage_id = "someparent"
                s.synthetic_stage_owner = SyntheticStageOwner.STAGE_BEFORE
            stages.append(s)
        want = reference_validate(g)
        obs["graphs_checked"] += 1
        obs["evaluations"] += 1
        if len(g) >= 2:
            keys.add(f"g:{sorted(classes)}:{want}")
        try:
            wf = Workflow.create(application="v", name="g", stages=stages)
            got = None
        except InvalidStageGraphError as e:
            got = "invalid:" + str(e).split(":", 1)[0]
        except CircularDependencyError:
            got = "cycle"
        except Exception as e:  # anything else is a totality violation
            out.append(viol(f"C20/create-raised-{type(e).__name__}", f"graph {g}: {e}"))
            continue
        if (want is None) != (got is None):
            out.append(viol(f"C20/validation-{'accepts-invalid' if got is None else 'rejects-valid'}:{want or got}", f"graph {g}: reference says {want}, Workflow.create says {got}"))
            continue
        if got is None:
            order = topological_sort(wf.stages)
            obs["sorts_checked"] += 1
            top = [s for s in wf.stages if s.parent_stage_id is None]
            if sorted(id(s) for s in order) != sorted(id(s) for s in top):
                out.append(viol("C20/sort-not-a-permutation", f"graph {g}: sorted {[s.ref_id for s in order]}"))
            pos = {s.ref_id: i for i, s in enumerate(order)}
            for s in order:
                for q in s.requisite_stage_ref_ids:
                    if pos[q] >= pos[s.ref_id]:
                        out.append(viol("C20/sort-order-wrong", f"{s.ref_id} listed before its requisite {q}: {[x.ref_id for x in order]}"))
            # the engine's second computed order: the order in which a starting stage's ancestors are merged
            # (persistence/sqlite/queries.py has its own sort); observed through list outputs, which are concatenated
            if 3 <= len(top) <= 9 and not any(s.parent_stage_id for s in wf.stages) and obs["merge_orders_checked"] < case["n"] // 4 + 2:
                out += _merge_order(wf, g, obs)
        if sample is None and classes:
            sample = {"graph": g, "injected": sorted(classes), "reference": want, "engine": got}
    return {"violations": _uniq(out), "obs": dict(obs), "keys": sorted(keys), "sample": sample}


def _merge_order(wf, g, obs: Counter) -> list[dict]:
    import os

    from stabilize.persistence.sqlite import SqliteWorkflowStore

    from .. import env

    path = os.path.join(env.scratch_dir(), f"c20-{os.getpid()}.db")
    for ext in ("", "-journal", "-wal", "-shm"):
        if os.path.exists(path + ext):
            os.remove(path + ext)
    store = SqliteWorkflowStore(f"sqlite:///{path}", create_tables=True)
    out = []
    try:
        for s in wf.stages:
            s.outputs = {"order": [s.ref_id]}
        store.store(wf)
        reqs = {s.ref_id: set(s.requisite_stage_ref_ids) for s in wf.stages}
        for s in wf.stages:
            merged = store.get_merged_ancestor_outputs(wf.id, s.ref_id).get("order") or []
            obs["merge_orders_checked"] += 1
            anc: set = set()
            todo = list(reqs[s.ref_id])
            while todo:
                x = todo.pop()
                if x not in anc:
                    anc.add(x)
                    todo += list(reqs[x])
            if sorted(merged) != sorted(anc):
                out.append(viol("C20/ancestor-merge-not-the-ancestor-set", f"graph {g}: {s.ref_id} merged {merged}, ancestors {sorted(anc)}"))
                continue
            pos = {r: i for i, r in enumerate(merged)}
            for r in merged:
                for q in reqs[r]:
                    if pos[q] >= pos[r]:
                        out.append(viol("C20/ancestor-merge-order-wrong", f"graph {g}: for {s.ref_id} ancestor {r} merged before its requisite {q}: {merged}"))
    finally:
        try:
            store.close()
        except Exception:
            pass
    return out


# ---------------------------------------------------------------------------
# (b) expressions
# ---------------------------------------------------------------------------

_events: list[tuple] = []
_recording = [False]
_hook_installed = [False]


def _audit(event: str, args) -> None:
    if _recording[0]:
        _events.append((event, args[0] if args else None))


def _install_hook() -> None:
    import unicodedata  # noqa: F401  (CPython's tokenizer imports it to NFKC-normalise non-ASCII identifiers)

    if not _hook_installed[0]:
        sys.addaudithook(_audit)
        _hook_installed[0] = True


NAMES = ["a", "b", "d", "lst", "s", "n", "f", "none", "flag", "missing", "nested", "true", "null", "None", "True"]
CMP = ["==", "!=", "<", "<=", ">", ">=", "is", "is not", "in", "not in"]
ATOMS = ["1", "0", "-1", "2.5", "1e3", "'x'", "''", '"y"', "None", "True", "False", "true", "false", "null", "[]", "[1, 2]", "()", "(1,)", "(1, 'a')", "[a, b]", "[[1], [2]]", "10**2", "b'x'", "...", "1j", "0x10", "'" + "z" * 50 + "'", "99999999999999999999"]
UNSUPPORTED = ["f(1)", "len(lst)", "__import__('os')", "lambda: 1", "[x for x in lst]", "{x for x in lst}", "{1: 2}", "{1, 2}", "f'{a}'", "(y := 1)", "*lst", "lst[1:2]", "lst[::2]", "a + b", "a - 1", "a * 2", "a / 0", "a % 2", "a // 2", "a ** 2", "a | b", "a & b", "a ^ b", "~a", "+a", "a << 1", "a if", "await a", "yield a", "a.b()", "d['k'](1)", "open('/etc/passwd')", "exec('1')", "eval('1')", "().__class__", "a.__class__.__mro__", "d.__getitem__", "print", "@", "a =", "a = 1", "import os", "del a", "1 2", "((", "))", "'unterminated", "a ?? b", "a && b", "a || b", "!a", "a === b", "\x00", "a\nb", "\t", " ", "", "#", "a #c", "λ", "名前 == 1", "a.𝓍", "“a”", "1_000", "0b2", "09", "a..b", "a[", "a]", "d[[1]]", "d[d]", "d[lst]", "-s", "-lst", "-d", "-none", "not -s", "-'x'", "-[1]", "-(1,)", "--n", "-(-n)", "not not a", "-True", "d[(1, [2])]", "nested['x'][[0]]", "lst[d]", "a if b else", "1 if a else 2 if b else 3"]


def _gen_expr(rng: random.Random, depth: int = 0) -> str:
    if depth > rng.choice([1, 2, 3, 4, 6]) or rng.random() < 0.15:
        k = rng.random()
        if k < 0.45:
            return rng.choice(NAMES)
        if k < 0.85:
            return rng.choice(ATOMS)
        return rng.choice(UNSUPPORTED)
    k = rng.randrange(12)
    e = lambda: _gen_expr(rng, depth + 1)  # noqa: E731
    if k == 0:
        return f"{e()} {rng.choice(CMP)} {e()}"
    if k == 1:
        return f"{e()} {rng.choice(CMP)} {e()} {rng.choice(CMP)} {e()}"
    if k == 2:
        return f"({e()}) {rng.choice(['and', 'or'])} ({e()})"
    if k == 3:
        return f"{rng.choice(['not', '-', 'not not', '- -'])} ({e()})"
    if k == 4:
        return f"({e()}).{rng.choice(['x', 'k', 'items', '__class__', 'b', 'get'])}"
    if k == 5:
        return f"({e()})[{e()}]"
    if k == 6:
        return f"({e()}) if ({e()}) else ({e()})"
    if k == 7:
        return f"[{e()}, {e()}]"
    if k == 8:
        return f"({e()}, {e()})"
    if k == 9:
        return f"{rng.choice(NAMES)}[{rng.choice([chr(39) + 'k' + chr(39), '0', '-1', '5', 'a', chr(39) + 'x' + chr(39)])}]"
    if k == 10:
        return f"{rng.choice(NAMES)}.{rng.choice(['x', 'k', 'y'])}.{rng.choice(['x', 'z'])}"
    return rng.choice(UNSUPPORTED)


def _gen_context(rng: random.Random) -> dict:
    vals = [None, True, False, 0, 1, -3, 2.5, "", "x", "abc", [], [1, 2], ["x"], {}, {"k": 1}, {"x": {"x": 2, "z": [1]}, "k": "v"}, [[1], [2]], 10**20]
    ctx = {}
    for n in ["a", "b", "d", "lst", "s", "n", "f", "none", "flag", "nested"]:
        if rng.random() < 0.85:
            ctx[n] = copy.deepcopy(rng.choice(vals))
    if rng.random() < 0.7:
        ctx["d"] = copy.deepcopy(rng.choice([{"k": 1, "x": {"x": 1}}, {}, {"k": None}]))
    if rng.random() < 0.7:
        ctx["lst"] = copy.deepcopy(rng.choice([[1, 2, 3], [], ["a", {"k": 1}]]))
    if rng.random() < 0.7:
        ctx["s"] = rng.choice(["str", "", "x"])
    return ctx


def _nest(rng: random.Random, depth: int) -> str:
    e = rng.choice(NAMES + ATOMS[:8])
    for _ in range(depth):
        k = rng.randrange(5)
        e = f"({e})" if k == 0 else f"not ({e})" if k == 1 else f"[{e}]" if k == 2 else f"({e}).x" if k == 3 else f"({e})[0]"
    return e


def _leak_site(e: BaseException) -> str:
    """Which evaluator operation let the exception escape (mechanism, not input)."""
    import traceback

    site = "?"
    for fr in traceback.extract_tb(e.__traceback__):
        if fr.filename.endswith("expressions.py") and fr.line:
            line = fr.line
            if "unary_func(" in line:
                site = "unary-operator-on-unsupported-operand"
            elif ".get(key)" in line or "value[key]" in line:
                site = "subscript-with-unhashable-key"
            elif "op_func(" in line:
                site = "comparison-operator"
            elif "ast.parse" in line:
                site = "parse"
            elif "func(values)" in line:
                site = "boolean-operator"
    return site


def check_expression(expr: str, ctx: dict, obs: Counter, keys: set) -> list[dict]:
    import ast

    from stabilize.expressions import ExpressionError, evaluate_expression

    out = []
    before = copy.deepcopy(ctx)
    _events.clear()
    _recording[0] = True
    outcome = "value"
    try:
        try:
            evaluate_expression(expr, ctx)
        finally:
            _recording[0] = False
    except ExpressionError:
        outcome = "ExpressionError"
    except RecursionError:
        outcome = "RecursionError"
        obs["recursion_errors_beyond_bound"] += 1
    except BaseException as e:
        outcome = type(e).__name__
        site = _leak_site(e)
        out.append(viol(f"C20/expression-leaks-{type(e).__name__}:{site}", f"evaluate_expression({expr!r}) with context {ctx!r} raised {type(e).__name__}: {e}"))
    obs["expressions_checked"] += 1
    obs["audit_events_seen"] += len(_events)
    bad = [ev for ev in _events if ev[0] != "compile" and not ev[0].startswith("object.__") and ev != ("import", "unicodedata")]
    if bad:
        out.append(viol(f"C20/evaluation-caused-audit-event:{bad[0][0]}", f"{expr!r}: {bad[:3]}"))
    if ctx != before:
        out.append(viol("C20/context-mutated", f"{expr!r}: {before!r} -> {ctx!r}"))
    try:
        node = type(ast.parse(expr.strip(), mode="eval").body).__name__
        keys.add(f"e:{node}:{outcome}")
    except Exception:
        keys.add(f"e:unparsable:{outcome}")
    return out


def _expr(case: dict) -> dict:
    _install_hook()
    rng = random.Random(case["seed"] * 103 + case["i"])
    obs: Counter = Counter()
    keys: set = set()
    out = []
    sample = []
    for j in range(case["n"]):
        m = j % 10
        if m == 0:
            expr = rng.choice(UNSUPPORTED)
        elif m == 1:
            expr = _nest(rng, rng.randint(5, 40))
        elif m == 2:
            expr = "".join(rng.choice("ab d[]().'\"<>=!- 1notin,:λ\\\n\t{}#%") for _ in range(rng.randint(0, 14)))
        else:
            expr = _gen_expr(rng)
        ctx = _gen_context(rng)
        out += check_expression(expr, ctx, obs, keys)
        obs["evaluations"] += 1
        if len(sample) < 6 and m in (3, 4):
            sample.append(expr)
    return {"violations": _uniq(out), "obs": dict(obs), "keys": sorted(keys), "sample": {"expressions": sample}}


def _engine(case: dict) -> dict:
    """Expressions as OR-split conditions / stageEnabled of a running workflow."""
    rng = random.Random(case["seed"] * 107 + case["i"])
    obs: Counter = Counter()
    keys: set = set()
    out = []
    for _ in range(case["n"]):
        conds = {b: (_gen_expr(rng) if rng.random() < 0.7 else rng.choice(UNSUPPORTED)) for b in ("b", "c")}
        enabled = _gen_expr(rng) if rng.random() < 0.7 else rng.choice(UNSUPPORTED)
        spec = {
            "name": "c20wf",
            "stages": [
                specs.st("pre", [], [dict(specs.OK, raw={"target": "dev", "ok": True}, out=["pre_o"])]),
                specs.st("a", ["pre"], [dict(specs.OK, raw={"a": 1, "d": {"k": 1}, "lst": [1, 2], "s": "x", "n": 2}, out=["a_o"])], split="OR", conds=conds),
                # b's own context has a dict-valued key named like another stage ("pre"): evaluating the condition
                # (which may refer to other stages' outputs by their reference) must leave b's context alone
                specs.st("b", ["a", "pre"], ctx={"stageEnabled": {"type": "expression", "expression": enabled}, "d": {"k": 1}, "lst": [1], "s": "x", "pre": {"target": "prod"}}),
                specs.st("c", ["a"]),
                specs.st("z", ["b", "c"], join="OR"),
            ],
        }
        run = delivery_run(spec, max_steps=300)
        obs["evaluations"] += 1
        obs["engine_expression_workflows"] += 1
        for ref in ("a", "b"):
            st = run.state["stages"][ref]
            exc = st["context"].get("exception")
            if st["status"] == "TERMINAL" or exc:
                err = str((exc or {}).get("details", {}).get("error"))
                mech = "unary-operator-on-unsupported-operand" if "unary" in err else "subscript-with-unhashable-key" if "unhashable" in err else "comparison-operator" if "byte must be" in err else "other"
                out.append(viol(f"C20/malformed-condition-crashed-stage:{mech}", f"stage {ref} ended {st['status']} with {exc}; split conditions {conds}, stageEnabled {enabled!r}"))
        own = run.state["stages"]["b"]["context"].get("pre")
        obs["stage_contexts_compared_after_evaluation"] += 1
        if own != {"target": "prod"}:
            out.append(viol("C20/evaluation-changed-stage-context", f"stage b was submitted with context['pre'] = {{'target': 'prod'}}; after its stageEnabled expression {enabled!r} was evaluated the stored context holds {own!r}"))
        keys.add(f"w:{run.state['stages']['b']['status']}:{run.state['stages']['c']['status']}")
    return {"violations": _uniq(out), "obs": dict(obs), "keys": sorted(keys)}


def _uniq(vs: list[dict]) -> list[dict]:
    seen = set()
    out = []
    for x in vs:
        if x["sig"] not in seen:
            seen.add(x["sig"])
            out.append(x)
    return out


def run_case(case: dict) -> dict:
    if case["kind"] == "graphs":
        return _graphs(case)
    if case["kind"] == "expr":
        return _expr(case)
    return _engine(case)

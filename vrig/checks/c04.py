"""C04 - a stage starts exactly once even when workers race."""

from __future__ import annotations

import json
import os
import random
from collections import Counter

from .. import interleave as il
from .. import oracles, specs
from ..framework import viol
from ..runs import summarize

ID = "C04"
LEVEL = "exploration"
LEVEL_TEXT = "exhaustive within a preemption bound on pair scenarios (bound 1 in quick, bound 2 in thorough) plus random / PCT whole-workflow schedules; held on the interleavings produced (distinct traces counted)"
RULE = (
    "pair scenario = two designated handler invocations started from a durable cut point of a real run and interleaved "
    "at every SQL statement / commit by a cooperative scheduler: StartStage(J) x StartStage(J) for J an AND / "
    "DISCRIMINATOR / N_OF_M join of 2-3 upstreams; CompleteStage(U1) x CompleteStage(U2); CompleteStage(U) x "
    "StartStage(J); and the SAME message held by two workers (lock lapsed) for StartStage, StartTask, RunTask, "
    "CompleteTask, CompleteStage. All schedules with <= 1 preemption plus a seeded sample (150 per pair, quick) or all / 3000 per pair "
    "(thorough) of the schedules with 2 preemptions. Whole-workflow runs: 3 workers polling one queue under seeded random and PCT schedules. Oracle at "
    "quiescence: every stage has exactly one NOT_STARTED->RUNNING row, every task one start row and one execution, each "
    "(completed stage, downstream) pair exactly one StartStage fan-out, final statuses all as the sequential run. "
    "Non-trivial = schedule with >= 1 context switch inside the race; distinct = hash of the (thread, verb, table) trace."
)
ASSUMPTIONS = ["SQLite backend, journal mode DELETE, busy timeout 0 with lock waits turned into scheduler parking", "statement-level (not bytecode-level) interleavings; in-memory structures with their own locks are exercised, not scheduled"]
MIN_OBS = {"schedules_with_switch": {"quick": 1500, "thorough": 30000}, "schedules_with_lock_block": {"quick": 50, "thorough": 1000}}
TIMEOUT = {"quick": 800, "thorough": 3400}

PAIRS = [
    ("start_start", "AND", 2),
    ("start_start", "DISCRIMINATOR", 2),
    ("start_start", "N_OF_M", 3),
    ("complete_complete", "AND", 2),
    ("complete_complete", "DISCRIMINATOR", 2),
    ("complete_complete", "N_OF_M", 3),
    ("complete_start", "DISCRIMINATOR", 2),
    ("complete_start", "N_OF_M", 3),
    ("complete_start", "AND", 2),
    ("same:StartStage", "AND", 2),
    ("same:StartTask", "AND", 2),
    ("same:RunTask", "AND", 2),
    ("same:CompleteTask", "AND", 2),
    ("same:CompleteStage", "AND", 2),
    ("same:StartStage", "N_OF_M", 3),
    ("same:CompleteStage", "DISCRIMINATOR", 2),
    # join stage whose tasks are built at plan time (zombie re-plan path is reachable)
    ("start_start", "AND", 2, "vb"),
    ("start_start", "DISCRIMINATOR", 2, "vb"),
    ("start_start", "N_OF_M", 3, "vb"),
    ("same:StartStage", "AND", 2, "vb"),
    ("complete_start", "N_OF_M", 3, "vb"),
]


def _join_spec(jt: str, width: int, ty: str = "v") -> dict:
    if jt == "AND":
        ups = [f"u{i}" for i in range(width)]
        sp = {"name": f"and{width}", "confluent": True, "stages": [specs.st("r")] + [specs.st(u, ["r"]) for u in ups] + [specs.st("j", ups), specs.st("z", ["j"])]}
    elif jt == "DISCRIMINATOR":
        sp = specs.first_of(width)
    else:
        sp = specs.quorum(width, 2)
    if ty != "v":
        for s in sp["stages"]:
            if s["ref"] == "j":
                s["type"] = ty
        sp["name"] += "_" + ty
    return sp


def gen_cases(tier: str, seed: int) -> list[dict]:
    cases = []
    for pi, (kind, jt, width, *_ty) in enumerate(PAIRS):
        chunks = 2 if tier == "quick" else 12
        for c in range(chunks):
            cases.append({"kind": "pair", "pair": pi, "chunk": c, "chunks": chunks, "bound": 2, "sample": 150 if tier == "quick" else 3000, "seed": seed})
    nwhole = 32 if tier == "quick" else 300
    for i in range(nwhole):
        cases.append({"kind": "whole", "i": i, "seed": seed, "runs": 15})
    return cases


def _stage_id_of(row: dict) -> str | None:
    try:
        return json.loads(row["payload"]).get("stage_id")
    except Exception:
        return None


def _cut(kind: str, spec: dict):
    """Delivery engine to the cut point; returns (db path, [row ids])."""
    jrow = {}

    def want(rows, w):
        st = w.snapshot_state()["stages"]
        jid = st["j"]["id"]
        up_ids = {st[u]["id"]: u for u in st if u.startswith("u")}
        if kind == "start_start":
            ss = [r for r in rows if r["type"] == "StartStage" and _stage_id_of(r) == jid]
            return [ss[0]["id"], ss[1]["id"]] if len(ss) >= 2 else None
        if kind == "complete_complete":
            cs = [r for r in rows if r["type"] == "CompleteStage" and _stage_id_of(r) in up_ids]
            return [cs[0]["id"], cs[1]["id"]] if len(cs) >= 2 else None
        if kind == "complete_start":
            cs = [r for r in rows if r["type"] == "CompleteStage" and _stage_id_of(r) in up_ids]
            ss = [r for r in rows if r["type"] == "StartStage" and _stage_id_of(r) == jid]
            return [cs[0]["id"], ss[0]["id"]] if cs and ss else None
        if kind.startswith("same:"):
            ty = kind.split(":", 1)[1]
            # a message of that type targeting the join stage j (or its task)
            c = [r for r in rows if r["type"] == ty and _stage_id_of(r) == jid]
            return [c[0]["id"], c[0]["id"]] if c else None
        return None

    # deliver everything except the designated kinds as long as possible
    from ..world import World

    w = World()
    try:
        w.submit(spec)
        for _ in range(400):
            rows = w.rows()
            if not rows:
                return None
            st = w.snapshot_state()["stages"]
            jid = st["j"]["id"]
            up_ids = {st[u]["id"] for u in st if u.startswith("u")}

            def held(r):
                sid = _stage_id_of(r)
                if kind == "start_start":
                    return r["type"] == "StartStage" and sid == jid
                if kind == "complete_complete":
                    return r["type"] == "CompleteStage" and sid in up_ids
                if kind == "complete_start":
                    return (r["type"] == "CompleteStage" and sid in up_ids) or (r["type"] == "StartStage" and sid == jid)
                return False

            ready = w.eligible(rows)
            free = [r for r in ready if not held(r)]
            got = want(rows, w)
            if got and (not free or kind.startswith("same:")):
                path = os.path.join(il.env.scratch_dir(), f"cut-{os.getpid()}-{random.randrange(1 << 40)}.db")
                w.copy_db(path)
                return path, got
            if kind == "complete_start" and got is None and not free:
                # need one CompleteStage(U) handled so that a StartStage(J) exists next to another CompleteStage(U')
                cs = [r for r in ready if r["type"] == "CompleteStage"]
                if cs:
                    w.deliver(cs[0]["id"])
                    continue
            if not free:
                if not ready:
                    return None
                w.deliver(ready[0]["id"])
                continue
            w.deliver(free[0]["id"])
        return None
    finally:
        w.close()


def exactly_once_oracle(spec: dict, run, prop: str = "C04") -> list[dict]:
    out = []
    final = run.state["stages"]
    # sequential outcome of these specs: everything SUCCEEDED
    bad = {k: v["status"] for k, v in final.items() if v["status"] != "SUCCEEDED"}
    if run.state["wf"] != "SUCCEEDED" or bad:
        out.append(viol(f"{prop}/outcome-differs-from-sequential", f"workflow {run.state['wf']}, stages not SUCCEEDED: {bad} (queue drained: {run.quiescent})"))
    for sid, per_iter in oracles.starts_per_iteration(run.audit).items():
        if sum(per_iter) != 1:
            out.append(viol(f"{prop}/stage-start-count", f"stage {sid}: {per_iter} NOT_STARTED->RUNNING rows"))
    tstarts: Counter = Counter()
    for a in run.audit:
        if a["kind"] == "status" and a["op"] == "task" and a["c"] == "NOT_STARTED" and a["d"] == "RUNNING":
            tstarts[a["a"]] += 1
    for tid, n in tstarts.items():
        if n != 1:
            out.append(viol(f"{prop}/task-start-count", f"task {tid} started {n} times"))
    ec = oracles.exec_counts(run.ledger)
    for k, n in ec.items():
        if n != 1:
            out.append(viol(f"{prop}/task-executed-{'twice' if n > 1 else 'never'}", f"{k} executed {n} times"))
    # fan-out: each (completed stage U, downstream D) exactly one StartStage insert by U's CompleteStage
    groups = oracles.Groups(run.commits)
    payloads = {a["a"]: a["d"] for a in run.audit if a["kind"] == "queue" and a["op"] == "ins"}
    fan: Counter = Counter()
    for a in run.audit:
        if a["kind"] == "queue" and a["op"] == "ins" and a["c"] == "StartStage":
            tag = groups.tag(groups.of(a["seq"]))
            if tag and tag[0] == "CompleteStage":
                try:
                    u = json.loads(payloads.get(str(tag[1])) or "{}").get("stage_id")
                    d = json.loads(a["d"]).get("stage_id")
                except Exception:
                    continue
                fan[(u, d)] += 1
    for (u, d), n in fan.items():
        if n != 1:
            out.append(viol(f"{prop}/downstream-triggered-{n}-times", f"completion of {u} pushed StartStage({d}) {n} times"))
    return out


def classify(v: list[dict], run) -> list[dict]:
    if not v:
        return v
    w = oracles.lost_plan_witness(run)
    if w:
        return [viol("C04/start-lost:plan-commit-lost-optimistic-lock-and-error-swallowed", f"{w}; symptoms {[x['sig'] for x in v][:4]}")]
    return v


def _pair(case: dict) -> dict:
    kind, jt, width, *ty = PAIRS[case["pair"]]
    spec = _join_spec(jt, width, ty[0] if ty else "v")
    cp = _cut(kind, spec)
    obs: Counter = Counter()
    keys: set = set()
    violations = []
    if cp is None:
        return {"violations": [], "obs": {"cut_point_not_reached": 1}, "keys": []}
    db, rows = cp
    sample = None
    try:
        na = il.solo_length(db, rows[0])
        nb = il.solo_length(db, rows[1])
        rng = random.Random(case["seed"] * 37 + case["pair"])
        scheds = il.bound_schedules(na, nb, case["bound"], sample=case.get("sample", 1500), rng=rng)
        scheds = [s for i, s in enumerate(scheds) if i % case["chunks"] == case["chunk"]]
        for sc in scheds:
            # the stage's tasks executed before the cut are not in this world's ledger: fine, counts are per post-cut
            run, info = il.run_pair(db, rows, il.Segments(sc))
            obs["evaluations"] += 1
            if run is None:
                obs["scheduler_watchdog"] += 1
                continue
            if info["switches"] > 0:
                obs["schedules_with_switch"] += 1
                keys.add(f"{kind}:{jt}:{info['trace_hash']}")
            if info["lock_blocks"]:
                obs["schedules_with_lock_block"] += 1
            if info["deadlocks"]:
                obs["sqlite_deadlock_errors_delivered"] += 1
            v = exactly_once_oracle(spec, run)
            # executions before the cut are missing from the ledger: only 'twice' is meaningful there
            v = [x for x in v if "executed-never" not in x["sig"]]
            if kind == "same:RunTask":
                # one RunTask delivered to two workers at once (lock lapsed mid-handling) is plain
                # at-least-once redelivery of the step in flight: the task body may run twice; the
                # property is about racing START requests - effects (completion, fan-out) stay single
                v = [x for x in v if "task-executed-twice" not in x["sig"]]
                obs["same_runtask_double_execution_allowed"] += 1
            v = classify(v, run)
            for x in v:
                x.update(pair=kind, join=jt, schedule=sc)
            violations += v
            if sample is None and info["switches"] >= 2:
                sample = {"pair": kind, "join": jt, "schedule": sc, "trace": [f"{t}:{l}" for t, l in info["trace"]][:80], "lock_blocks": info["lock_blocks"], "outcome": summarize(run)}
    finally:
        try:
            os.unlink(db)
        except OSError:
            pass
    return {"violations": _uniq(violations), "obs": dict(obs), "keys": sorted(keys), "sample": sample}


def _whole(case: dict) -> dict:
    rng = random.Random(case["seed"] * 41 + case["i"])
    obs: Counter = Counter()
    keys: set = set()
    violations = []
    for j in range(case["runs"]):
        jt, width = rng.choice([("AND", 2), ("AND", 3), ("DISCRIMINATOR", 2), ("DISCRIMINATOR", 3), ("N_OF_M", 3)])
        spec = _join_spec(jt, width, rng.choice(["v", "vb"]))
        s = rng.randrange(1 << 30)
        pol = il.RandomPolicy(s, rng.choice([0.15, 0.3, 0.5])) if j % 2 else il.PCT(s, rng.randint(2, 5), 400)
        run, info = il.run_workers(spec, 3, pol)
        obs["evaluations"] += 1
        if run is None:
            obs["scheduler_watchdog"] += 1
            continue
        if info["switches"] > 0:
            obs["schedules_with_switch"] += 1
            keys.add(f"whole:{jt}{width}:{info['trace_hash']}")
        if info["lock_blocks"]:
            obs["schedules_with_lock_block"] += 1
        v = classify(exactly_once_oracle(spec, run), run)
        for x in v:
            x.update(whole=True, join=jt, width=width, policy_seed=s)
        violations += v
    return {"violations": _uniq(violations), "obs": dict(obs), "keys": sorted(keys)}


def _uniq(vs: list[dict]) -> list[dict]:
    seen = set()
    out = []
    for x in vs:
        if x["sig"] not in seen:
            seen.add(x["sig"])
            out.append(x)
    return out


def run_case(case: dict) -> dict:
    return _pair(case) if case["kind"] == "pair" else _whole(case)
